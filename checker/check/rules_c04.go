package check

import (
	"go/types"
	"strings"

	"golang.org/x/tools/go/ssa"
)

func init() { Register("C04", runC04) }

func (c *Ctx) lockControls() {
	// positive and negative controls shared by the lock rules
	c.guardRule("ctl.guard", []string{"locks.BadBox", "locks.BadDowngrade", "locks.GoodBox", "locks.GoodTwoLocks"}, nil, true)
	c.pairingRule("ctl.pairing", func(fn *ssa.Function) bool {
		return strings.HasPrefix(PkgPathOf(fn), PkgCtl+"/locks") && strings.Contains(fn.String(), "locks.Pair)")
	}, true)
	c.lockOrderRules("ctl", func(fn *ssa.Function) bool { return strings.HasPrefix(PkgPathOf(fn), PkgCtl+"/locks") },
		[]string{"locks.BadBroker.lock", "locks.GoodBroker.lock"}, []string{PkgRoot}, true, nil)
	c.ruleWaitGroupFields("ctl.wgfield", true)
	c.R.WantControl("ctl.wgfield")
	c.recoverControls()
	c.R.WantControl("ctl.guard")
	c.R.WantControl("ctl.pairing")
	c.R.WantControl("ctl.self")
	c.R.WantControl("ctl.open")
}

func runC04(c *Ctx) {
	r := c.R
	r.Explanation = "Decides the race-freedom clause of C04 as a pairwise consistent-lock-set discipline over every field of Broker, graph and nodeUsage (every write/access pair shares a lock held for writing at the write), immutability after publication of registeredPipeline and linkedNode, confinement of the sync.Map to graphMap's methods, and lock pairing in the root package. It does not decide the linearizability / delivery-count clause (a statement about histories of sync.Map under real interleavings). C04.section: all broker-state accesses of a mutating call lie in one critical section of Broker.lock (check-then-act atomicity). C04.copy: no second holder of the pipeline set is written outside Broker.lock:W (a reader-side cache can overwrite a newer invalidation). C04.self/order/open: the lock-order rules of C12 over the root package (a re-acquired RWMutex wedges all callers). C04.nocopy: no by-value receiver, parameter, result or dereference copy of a type that contains a sync primitive (copylocks is not among the analyzers go test runs). C04.wgfield: a sync.WaitGroup held in a field of a shared object has every Add and Wait under a common lock. C04.escape node-formatted: no Node value is handed to fmt or formatted through String in package eventlogger (fmt would read the node's fields while its Process writes them). C04.seq Reopen:own-walk: every return of Broker.Reopen lies behind its own walk of the graphs (or hands back the context's error); a caller is never answered with the outcome of another call's walk. C04.selfsync panic-site:registry-deref: an entry of Broker.nodes / Broker.graphs is dereferenced only behind the look-up's ok flag."
	r.NotDecided = []string{"linearizability of registration for Send and per-pipeline delivery counts", "absence of panics"}
	c.lockControls()

	n := c.guardRule("C04.guard", []string{"eventlogger.Broker", "eventlogger.graph", "eventlogger.nodeUsage"}, []GuardException{
		{Field: "eventlogger.Broker.clock", Writer: "(*eventlogger.Broker).StopTimeAt", Reason: "documented test hook, not among the operations the property quantifies over"},
	}, false)
	if n < 5 {
		r.Und("C04.guard", "instance-floor", "", "fewer than the 5 guarded fields confirmed by hand (nodes, graphs, successThreshold, successThresholdSinks, referenceCount)")
	}

	// C04.immutable: no post-construction write to published pipeline structures
	must := c.MustLocks()
	accs := c.P.CollectAccesses(c.P.RepoFuncs(), must, func(o string) bool {
		return o == "eventlogger.registeredPipeline" || o == "eventlogger.linkedNode"
	})
	nW := 0
	for _, a := range accs {
		if !a.Write {
			continue
		}
		nW++
		r.SawFn(c.P.ShortFn(a.Fn))
		construct := a.Key() + "@" + c.P.ShortFn(a.Fn)
		if a.Fresh {
			r.Ok("C04.immutable", construct, c.P.InstrPos(a.Instr), "written only through an object allocated by this call (before publication)")
		} else {
			r.Bad("C04.immutable", construct, c.P.InstrPos(a.Instr), "field of a possibly published pipeline structure is written in place; Send traverses these lists without any lock")
		}
	}
	// ... nor is a published structure replaced wholesale through its pointer (*p = v)
	for _, f := range c.P.FuncsIn(PkgRoot) {
		eachInstr(f, func(in ssa.Instruction) {
			st, ok := in.(*ssa.Store)
			if !ok {
				return
			}
			pt, ok := st.Addr.Type().Underlying().(*types.Pointer)
			if !ok {
				return
			}
			nt, ok := pt.Elem().(*types.Named)
			if !ok || nt.Obj().Pkg() == nil || nt.Obj().Pkg().Path() != PkgRoot || (nt.Obj().Name() != "registeredPipeline" && nt.Obj().Name() != "linkedNode") {
				return
			}
			if _, fresh := st.Addr.(*ssa.Alloc); fresh {
				return // initialisation of an object allocated by this call
			}
			r.Bad("C04.immutable", "eventlogger."+nt.Obj().Name()+":overwritten-in-place@"+c.P.ShortFn(f), c.P.InstrPos(in), "a "+nt.Obj().Name()+" that may already be published is overwritten in place through its pointer: Send and Reopen read these structures without any lock (they only synchronise through the sync.Map), so the write races with them and a reader can see a half-updated pipeline")
		})
	}
	r.Floor("C04.immutable", 4)

	// C04.selfsync: the sync.Map is touched only by graphMap's own methods
	accs = c.P.CollectAccesses(c.P.RepoFuncs(), must, func(o string) bool { return o == "eventlogger.graphMap" })
	for _, a := range accs {
		construct := a.Key() + "@" + c.P.ShortFn(a.Fn)
		recvOK := a.Fn.Signature.Recv() != nil && typeShort(a.Fn.Signature.Recv().Type()) == "eventlogger.graphMap"
		if a.Fn.Parent() != nil {
			pf := a.Fn.Parent()
			recvOK = pf.Signature.Recv() != nil && typeShort(pf.Signature.Recv().Type()) == "eventlogger.graphMap"
		}
		if recvOK && !a.Write {
			r.Ok("C04.selfsync", construct, c.P.InstrPos(a.Instr), "sync.Map reached through a graphMap method: "+a.Callee)
		} else {
			r.Bad("C04.selfsync", construct, c.P.InstrPos(a.Instr), "graphMap.m is accessed outside graphMap's methods or overwritten")
		}
	}
	r.Floor("C04.selfsync", 4)
	c.rulePanicSites("C04.selfsync")

	// structural premise of the delivery clause: a registered pipeline is never absent from the
	// sync.Map between its registration and its removal — an overwrite is one Store
	c.ruleSingleStore("C04.swap")
	c.ruleOneSection("C04.section")
	c.ruleOwnWalkAs("C04.seq")
	c.ruleRegistryDeref("C04.selfsync")
	c.ruleNodeNotFormatted("C04.escape")
	// "a Send that starts after a pipeline's registration returned delivers to that pipeline": what a
	// successful registration stores is the chain linked by THIS call from the nodes registered now
	// (the commit rule of C05 / C07)
	nObl := len(c.R.Obls)
	c.ruleCommit()
	for i := nObl; i < len(c.R.Obls); i++ {
		if strings.HasPrefix(c.R.Obls[i].Rule, "C05.commit") || c.R.Obls[i].Rule == "C07.swap" {
			c.R.Obls[i].Rule = "C04.commit"
		}
	}
	c.ruleGoCapturedWrites("C04.goroutines")
	c.rulePipelineCopies("C04.copy")

	c.pairingRule("C04.pairing", func(fn *ssa.Function) bool { return PkgPathOf(fn) == PkgRoot }, false)
	c.ruleNoLockCopy("C04.nocopy")
	c.ruleWaitGroupFields("C04.wgfield", false)
	r.Floor("C04.pairing", 10)

	// concurrent callers can only quiesce if no broker call re-acquires a lock it may hold (a second
	// RLock of an RWMutex blocks behind a waiting writer, which waits for the first: every later call
	// queues behind them) and the locks of the package are acquired in one order: the lock-order
	// rules of C12, over the root package, under C04's name.
	var e1Done, e1OK bool
	e1 := func() (bool, string) {
		if !e1Done {
			e1Done = true
			e1OK = c.ruleGatedPass("C04.e1-pass") && c.ruleGatedNoGate("C04.e1-nogate")
		}
		if e1OK {
			return true, "openGate only sends a payload proven not Gateable, and Process returns a non-Gateable event before locking"
		}
		return false, "C11.pass / C11.nogate do not both hold"
	}
	c.lockOrderRules("C04", func(fn *ssa.Function) bool { return PkgPathOf(fn) == PkgRoot }, []string{"eventlogger.Broker.lock"}, []string{PkgRoot}, false, e1)
	r.Floor("C04.self", 10)
}

// ruleOwnWalkAs files C20's own-walk clause under another property (C04.seq: a Reopen that returns
// success has reopened every node after it was invoked).
func (c *Ctx) ruleOwnWalkAs(rule string) {
	reopen := c.Fn(rule, PkgRoot, "Broker", "Reopen")
	if reopen == nil {
		return
	}
	isGraphReopen := func(n string, cc *ssa.CallCommon) bool { return n == "(*eventlogger.graph).reopen" }
	if len(callsTo(reopen, isGraphReopen)) > 0 {
		c.R.Ok(rule, "(*Broker).Reopen:own-walk", c.P.Pos(reopen.Pos()), "the exported method does the walk itself")
		return
	}
	var helpers []ssa.CallInstruction
	for _, ci := range callsTo(reopen, func(n string, cc *ssa.CallCommon) bool {
		sc := cc.StaticCallee()
		return sc != nil && sc.Blocks != nil && PkgPathOf(sc) == PkgRoot && len(callsTo(sc, isGraphReopen)) == 1
	}) {
		helpers = append(helpers, ci)
	}
	if len(helpers) != 1 {
		c.R.Und(rule, "(*Broker).Reopen:own-walk", c.P.Pos(reopen.Pos()), "the walk over the graphs was not found in Reopen or in a helper it calls")
		return
	}
	c.ruleOwnWalk(rule, reopen, helpers[0])
}
