package check

import (
	"fmt"

	"golang.org/x/tools/go/ssa"
)

// gatedAssert finds the comma-ok type assertion to gated.Gateable in fn and
// returns it with the blocks taken on success and failure.
func gatedAssert(fn *ssa.Function) (ta *ssa.TypeAssert, okBlk, failBlk *ssa.BasicBlock) {
	eachInstr(fn, func(in ssa.Instruction) {
		x, ok := in.(*ssa.TypeAssert)
		if !ok || !x.CommaOk || typeShort(x.AssertedType) != "gated.Gateable" || ta != nil {
			return
		}
		// find the If on Extract #1
		for _, r := range *x.Referrers() {
			ex, ok := r.(*ssa.Extract)
			if !ok || ex.Index != 1 {
				continue
			}
			for _, rr := range *ex.Referrers() {
				if iff, ok := rr.(*ssa.If); ok && iff.Cond == ex {
					ta = x
					okBlk, failBlk = iff.Block().Succs[0], iff.Block().Succs[1]
				}
			}
		}
	})
	return
}

// ruleGatedPass decides C11.pass: a payload that is not Gateable makes
// (*gated.Filter).Process return its own event parameter with a nil error
// before any lock is taken and before any repo function that may lock is called.
func (c *Ctx) ruleGatedPass(rule string) bool {
	p, r := c.P, c.R
	fn := c.Fn(rule, PkgGated, "Filter", "Process")
	if fn == nil {
		return false
	}
	construct := "gated.(*Filter).Process:not-gateable"
	ta, _, fail := gatedAssert(fn)
	if ta == nil {
		r.Und(rule, construct, p.Pos(fn.Pos()), "no comma-ok assertion of the payload to Gateable followed by a branch was found")
		return false
	}
	tb := p.NewTerms(nil)
	src := tb.Of(ta.X)
	if base, ok := src.IsField("Payload"); !ok || !base.IsParam("2:e") {
		r.Bad(rule, construct, p.InstrPos(ta), "the value asserted to Gateable is "+src.String()+", not the Payload of the event parameter")
		return false
	}
	// the failure block must return (Param e, nil)
	var ret *ssa.Return
	if len(fail.Instrs) > 0 {
		ret, _ = fail.Instrs[len(fail.Instrs)-1].(*ssa.Return)
	}
	var rv []ssa.Value
	if ret != nil {
		rv = RetVals(ret)
	}
	if ret == nil || len(rv) != 2 || !tb.Of(rv[0]).IsParam("2:e") || !isNilConst(rv[1]) {
		r.Bad(rule, construct, p.InstrPos(ta), "the not-Gateable branch does not immediately return (e, nil)")
		return false
	}
	// nothing that locks before that return
	may := c.MayLocks()
	pre := blocksReaching(fail)
	for b := range pre {
		for _, in := range b.Instrs {
			ci, ok := in.(ssa.CallInstruction)
			if !ok {
				continue
			}
			if op := lockOpOf(ci.Common()); op != nil {
				r.Bad(rule, construct, p.InstrPos(in), "a lock operation on "+op.Class+" can execute before the not-Gateable return")
				return false
			}
			if sc := ci.Common().StaticCallee(); sc != nil && p.InRepo(sc) {
				if acq := may.MayAcquire(sc); len(acq) > 0 {
					r.Bad(rule, construct, p.InstrPos(in), fmt.Sprintf("%s, which may acquire %v, can execute before the not-Gateable return", p.ShortFn(sc), acq))
					return false
				}
			}
		}
	}
	r.Ok(rule, construct, p.InstrPos(ret), "payload.(Gateable) failing returns (e, nil); no lock operation and no locking callee can execute before it")
	return true
}

// ruleGatedNoGate decides C11.nogate: the Send in openGate is dominated by the
// failed assertion of the very payload it sends to Gateable, and sends
// composition's type and payload unchanged with the caller's context.
func (c *Ctx) ruleGatedNoGate(rule string) bool {
	p, r := c.P, c.R
	fn := c.Fn(rule, PkgGated, "Filter", "openGate")
	if fn == nil {
		return false
	}
	construct := "gated.(*Filter).openGate:Send"
	sends := callsTo(fn, func(n string, cc *ssa.CallCommon) bool { return n == "invoke gated.Sender.Send" })
	if len(sends) != 1 {
		r.Und(rule, construct, p.Pos(fn.Pos()), fmt.Sprintf("expected exactly one invoke of Sender.Send in openGate, found %d", len(sends)))
		return false
	}
	send := sends[0]
	ta, _, fail := gatedAssert(fn)
	if ta == nil {
		r.Bad(rule, construct, p.InstrPos(send), "no comma-ok assertion to Gateable guards the Send")
		return false
	}
	tb := p.NewTerms(nil)
	args := send.Common().Args
	pay := tb.Of(args[2])
	if pay.String() != tb.Of(ta.X).String() {
		r.Bad(rule, construct, p.InstrPos(send), "the payload sent ("+pay.String()+") is not the value asserted not to be Gateable ("+tb.Of(ta.X).String()+")")
		return false
	}
	if !edgeDominates(ta.Block(), fail, send.Block()) {
		r.Bad(rule, construct, p.InstrPos(send), "Send is reachable without passing the failed Gateable assertion")
		return false
	}
	typ := tb.Of(args[1])
	okShape := pay.Op == "Extract" && pay.Name == "1" && typ.Op == "Extract" && typ.Name == "0" &&
		pay.Args[0].String() == typ.Args[0].String() && pay.Args[0].Op == "Call" && tb.Of(args[0]).IsParam("1:ctx")
	if !okShape {
		r.Bad(rule, construct, p.InstrPos(send), fmt.Sprintf("Send arguments are not (ctx, composition type, composition payload): (%s, %s, %s)", tb.Of(args[0]), typ, pay))
		return false
	}
	comp := pay.Args[0]
	if len(comp.Args) < 1 || !comp.Args[0].Is("Field", "composeFrom") {
		r.Bad(rule, construct, p.InstrPos(send), "the values sent do not come from the filter's composeFrom function: "+comp.String())
		return false
	}
	r.Ok(rule, construct, p.InstrPos(send), "Send(ctx, t, p) with (t, p) = composeFrom(...), dominated by the failed p.(Gateable) assertion")
	return true
}
