package check

import (
	"fmt"
	"go/token"
	"go/types"
	"strings"

	"golang.org/x/tools/go/ssa"
)

func init() { Register("C20", runC20) }

// loopOf returns the natural-loop blocks containing b (blocks that both reach b
// and are reachable from b), or nil if b is not in a cycle.
func loopOf(b *ssa.BasicBlock) map[*ssa.BasicBlock]bool {
	if !inCycle(b) {
		return nil
	}
	loop := map[*ssa.BasicBlock]bool{}
	from := reachableFrom(b)
	to := blocksReaching(b)
	for x := range from {
		if to[x] {
			loop[x] = true
		}
	}
	return loop
}

// loopExit describes one edge leaving a loop.
type loopExit struct {
	from, to *ssa.BasicBlock
	kind     string // exhausted | return | other
	detail   string
}

// classifyExits: "exhausted" = exit taken on the false edge of an index<len test
// or on the !ok edge of a map/range Next; "return" = the target block returns.
func classifyExits(loop map[*ssa.BasicBlock]bool) []loopExit {
	var out []loopExit
	for b := range loop {
		for si, s := range b.Succs {
			if loop[s] {
				continue
			}
			e := loopExit{from: b, to: s, kind: "other"}
			cond, _, _ := condOf(b)
			switch cv := cond.(type) {
			case *ssa.BinOp:
				if cv.Op == token.LSS && si == 1 {
					if c, ok := cv.Y.(*ssa.Call); ok {
						if bi, ok := c.Call.Value.(*ssa.Builtin); ok && bi.Name() == "len" {
							e.kind = "exhausted"
						}
					}
					if _, ok := cv.Y.(*ssa.Const); ok {
						e.kind = "exhausted" // range over an integer / constant-length array
					}
					if _, ok := cv.X.(*ssa.Phi); ok {
						e.kind = "exhausted" // counted loop: i < bound with i the induction variable
					}
					if inc, ok := cv.X.(*ssa.BinOp); ok && inc.Op == token.ADD {
						// `for i := range n` is built as a rotated loop: the latch tests i+1 < n
						if _, isPhi := inc.X.(*ssa.Phi); isPhi {
							if k, isC := constInt(inc.Y); isC && k == 1 {
								e.kind = "exhausted"
							}
						}
					}
				}
				// linked-list walk: for e := l.Front(); e != nil; e = ...
				if (cv.Op == token.NEQ && si == 1 || cv.Op == token.EQL && si == 0) && (isNilConst(cv.X) || isNilConst(cv.Y)) {
					v := cv.X
					if isNilConst(v) {
						v = cv.Y
					}
					if ph, ok := v.(*ssa.Phi); ok && typeShort(ph.Type()) == "list.Element" {
						e.kind = "exhausted"
					}
				}
			case *ssa.Extract:
				if _, ok := cv.Tuple.(*ssa.Next); ok && cv.Index == 0 && si == 1 {
					e.kind = "exhausted"
				}
			}
			if e.kind == "other" {
				// does the exit lead straight to a return?
				t := s
				for len(t.Instrs) == 1 && len(t.Succs) == 1 {
					t = t.Succs[0]
				}
				if len(t.Instrs) > 0 {
					if ret, ok := t.Instrs[len(t.Instrs)-1].(*ssa.Return); ok && !inCycle(t) {
						// only an ERROR return is an acceptable early exit: leaving the loop to
						// return success (break to the function's normal end) skips elements
						e.kind = "return-nil"
						rv := RetVals(ret)
						if n := len(rv); n > 0 {
							idx, isErr := returnsError(t.Parent().Signature)
							if isErr && idx < n && !isNilConst(rv[idx]) {
								e.kind = "return"
							}
							if b, isB := constBool(rv[n-1]); isB && !b && !isErr {
								e.kind = "return" // callbacks reporting failure with false
							}
						}
					}
				}
			}
			out = append(out, e)
		}
	}
	return out
}

// fullLoop checks that the loop containing in visits every element: its only
// exits are exhaustion and (if allowErrReturn) returns.
func (c *Ctx) fullLoop(in ssa.Instruction, allowReturn bool) (bool, string) {
	loop := loopOf(in.Block())
	if loop == nil {
		return false, "not inside a loop"
	}
	nEx := 0
	for _, e := range classifyExits(loop) {
		switch e.kind {
		case "exhausted":
			nEx++
		case "return":
			if !allowReturn {
				return false, "the loop can be left by a return at " + c.P.InstrPos(firstPos(e.to))
			}
		case "return-nil":
			return false, "the loop can be left early towards a successful return (not an error) at " + c.P.InstrPos(lastInstr(e.from)) + ": later elements are skipped"
		default:
			return false, "the loop has an exit that is neither exhaustion nor an error return, at " + c.P.InstrPos(lastInstr(e.from))
		}
	}
	if nEx == 0 {
		return false, "no exhaustion exit found"
	}
	return true, ""
}

// sliceSources collects the values appended to the slice value v (through phis
// and append chains) and whether anything else flows into it.
func sliceSources(v ssa.Value, seen map[ssa.Value]bool, elems *[]ssa.Value, appends *[]*ssa.Call) bool {
	if seen[v] {
		return true
	}
	seen[v] = true
	switch x := v.(type) {
	case *ssa.Phi:
		for _, e := range x.Edges {
			if !sliceSources(e, seen, elems, appends) {
				return false
			}
		}
		return true
	case *ssa.MakeSlice:
		return true
	case *ssa.Const:
		return x.IsNil()
	case *ssa.Call:
		if b, ok := x.Call.Value.(*ssa.Builtin); ok && b.Name() == "append" {
			*appends = append(*appends, x)
			if !sliceSources(x.Call.Args[0], seen, elems, appends) {
				return false
			}
			// appended elements: varargs slice
			if sl, ok := x.Call.Args[1].(*ssa.Slice); ok {
				if al, ok := sl.X.(*ssa.Alloc); ok {
					for _, ref := range nonDebugRefs(al) {
						if ia, ok := ref.(*ssa.IndexAddr); ok {
							for _, r2 := range nonDebugRefs(ia) {
								if st, ok := r2.(*ssa.Store); ok {
									*elems = append(*elems, st.Val)
								}
							}
						}
					}
					return true
				}
			}
			return false
		}
	case *ssa.UnOp:
		if x.Op == token.MUL {
			if cell, ok := x.X.(*ssa.Alloc); ok {
				okAll := true
				for _, ref := range nonDebugRefs(cell) {
					if st, ok := ref.(*ssa.Store); ok && st.Addr == cell {
						if !sliceSources(st.Val, seen, elems, appends) {
							okAll = false
						}
					}
				}
				return okAll
			}
		}
	}
	return false
}

func runC20(c *Ctx) {
	p, r := c.P, c.R
	r.Explanation = "Decides that Broker.Reopen reaches every node and carries every failure: the per-graph reopen is applied to every value of the whole graphs map (directly or through a snapshot slice filled by a full range over the map), the per-graph reopen ranges the roots with a callback that always continues and starts the per-node walk at each pipeline's root, the per-node step invokes Reopen on the node and then visits every successor (loops whose only exits are exhaustion or an error return); and no error on the chain Node.Reopen -> doReopen -> reopen -> Broker.Reopen is dropped or replaced, with the all-nil path returning nil. sync.Map.Range visiting every key is trusted (A4). Every nil return of Broker.Reopen walked all graphs; errors merged into a variable that is later overwritten are reported path-sensitively. Also: every successful return of the per-node step lies behind the successor loop, and no error of foreign origin is handed to multierror.Append unwrapped (it flattens, and an empty *multierror.Error vanishes). C20.commit: registrations store the chain linked from the currently registered nodes. C20.carry (strict): an error returned only under a condition other than its nil test counts as dropped. C20.all also: graphMap.Range is sync.Map.Range. C20.all follows a wrapper: when the walk lives in a helper of the Broker, the helper is examined and the exported method owes Reopen:own-walk. C20.recover: a recovered panic on the reopen chain reaches the error result."
	r.NotDecided = []string{"sync.Map.Range visiting every key (A4)", "behaviour of the nodes' own Reopen"}
	c.errControls()
	c.errStrict = true // "carries that failure"
	c.ruleRecoverResults("C20.recover", []string{PkgRoot}, false)
	reopen := c.Fn("C20.anchor", PkgRoot, "Broker", "Reopen")
	if reopen == nil {
		return
	}
	tb := p.NewTerms(nil)
	// --- C20.all: Broker.Reopen
	isGraphReopen := func(n string, cc *ssa.CallCommon) bool { return n == "(*eventlogger.graph).reopen" }
	calls := callsTo(reopen, isGraphReopen)
	if len(calls) == 0 {
		// the walk may live in a helper of the Broker which the exported method wraps: the helper is then
		// the function examined below, and the wrapper owes the walk on every path of its own
		// (C20.all / C04.seq Reopen:own-walk)
		var helpers []ssa.CallInstruction
		for _, ci := range callsTo(reopen, func(n string, cc *ssa.CallCommon) bool {
			sc := cc.StaticCallee()
			return sc != nil && sc.Blocks != nil && PkgPathOf(sc) == PkgRoot && len(callsTo(sc, isGraphReopen)) == 1
		}) {
			helpers = append(helpers, ci)
		}
		if len(helpers) == 1 {
			c.ruleOwnWalk("C20.all", reopen, helpers[0])
			reopen = helpers[0].Common().StaticCallee()
			calls = callsTo(reopen, isGraphReopen)
		}
	}
	if len(calls) != 1 {
		r.Und("C20.all", "(*Broker).Reopen", p.Pos(reopen.Pos()), fmt.Sprintf("expected one call of (*graph).reopen, found %d", len(calls)))
		return
	}
	gre := calls[0]
	graphReopen := gre.Common().StaticCallee()
	recv := gre.Common().Args[0]
	isMapValue := func(v ssa.Value) (bool, *ssa.Next) {
		ex, ok := v.(*ssa.Extract)
		if !ok || ex.Index != 2 {
			return false, nil
		}
		nx, ok := ex.Tuple.(*ssa.Next)
		if !ok {
			return false, nil
		}
		rg, ok := nx.Iter.(*ssa.Range)
		if !ok {
			return false, nil
		}
		return tb.Of(rg.X).String() == "Field[graphs](Param(0:b))", nx
	}
	okAll := false
	detail := ""
	if ok, nx := isMapValue(recv); ok {
		// direct: for _, g := range b.graphs { g.reopen }
		if full, why := c.fullLoop(nx, true); full {
			okAll = true
			detail = "reopen applied to every value of a full range over b.graphs"
		} else {
			detail = "range over b.graphs: " + why
		}
	} else if ld, ok := recv.(*ssa.UnOp); ok && ld.Op == token.MUL {
		if ia, ok := ld.X.(*ssa.IndexAddr); ok {
			var elems []ssa.Value
			var apps []*ssa.Call
			if sliceSources(ia.X, map[ssa.Value]bool{}, &elems, &apps) && len(elems) > 0 {
				okAll = true
				for _, e := range elems {
					okv, nx := isMapValue(e)
					if !okv {
						okAll = false
						detail = "the snapshot slice receives " + tb.Of(e).String() + ", not the values of b.graphs"
						break
					}
					if full, why := c.fullLoop(nx, false); !full {
						okAll = false
						detail = "the snapshot of b.graphs is not a full range: " + why
					}
				}
				for _, a := range apps {
					if loopOf(a.Block()) == nil {
						okAll = false
						detail = "snapshot append outside the range loop"
					} else if unc, at := unconditionalInLoop(a); !unc {
						okAll = false
						detail = "the snapshot append is conditional inside the range loop"
						if at != nil {
							detail += " (branch at " + p.InstrPos(lastInstr(at)) + "): some graphs are left out of the snapshot and never reopened"
						}
					}
				}
				if okAll {
					if full, why := c.fullLoop(gre, true); !full {
						okAll = false
						detail = "the loop over the snapshot: " + why
					} else if unc, _ := unconditionalInLoop(gre); !unc {
						okAll = false
						detail = "reopen is applied to the snapshot's elements only under an extra condition"
					} else {
						detail = "snapshot slice filled by a full range over b.graphs (under the read lock), reopen applied to every element of a full loop over the snapshot"
					}
				}
			} else {
				detail = "cannot trace the slice the graphs are taken from"
			}
		}
	} else {
		detail = "receiver of reopen is " + tb.Of(recv).String()
	}
	r.Check(okAll, "C20.all", "(*Broker).Reopen:every-graph", p.InstrPos(gre), detail, "Broker.Reopen does not reach every graph: "+detail)
	if !tb.Of(gre.Common().Args[1]).IsParam("1:ctx") {
		r.Bad("C20.all", "(*Broker).Reopen:ctx", p.InstrPos(gre), "graph.reopen does not receive the caller's context")
	}
	c.ruleReopenNilPaths(reopen, gre)

	// --- graph.reopen: range with callback that always continues
	var doRe *ssa.Function
	if graphReopen != nil {
		r.SawFn(p.ShortFn(graphReopen))
		rc := callsTo(graphReopen, func(n string, cc *ssa.CallCommon) bool { return n == "(*eventlogger.graphMap).Range" })
		if len(rc) != 1 {
			r.Und("C20.all", "(*graph).reopen", p.Pos(graphReopen.Pos()), "expected one Range over the roots")
		} else {
			recvT := tb.Of(rc[0].Common().Args[0])
			base, okf := recvT.IsFieldAddr("roots")
			r.Check(okf && base.IsParam("0:g"), "C20.all", "(*graph).reopen:range", p.InstrPos(rc[0]), "ranges &g.roots", "ranges "+recvT.String()+" instead of the graph's own roots")
			if mc, ok := rc[0].Common().Args[1].(*ssa.MakeClosure); ok {
				cb := mc.Fn.(*ssa.Function)
				r.SawFn(p.ShortFn(cb))
				always := true
				for _, ret := range Returns(cb) {
					if b, ok := constBool(RetVals(ret)[0]); !ok || !b {
						always = false
					}
				}
				r.Check(always, "C20.all", "(*graph).reopen:callback-continues", p.Pos(cb.Pos()), "the range callback returns true on every path", "the range callback can return false: pipelines after the first failing one are never reopened")
				var starts []ssa.CallInstruction
				eachInstr(cb, func(in ssa.Instruction) {
					if ci, ok := in.(ssa.CallInstruction); ok {
						if sc := ci.Common().StaticCallee(); sc != nil && p.InRepo(sc) && sc.Signature.Params().Len() >= 2 {
							for _, a := range ci.Common().Args {
								if typeShort(a.Type()) == "eventlogger.linkedNode" {
									starts = append(starts, ci)
								}
							}
						}
					}
				})
				if len(starts) != 1 || inCycle(starts[0].Block()) || !dominatesBlockEntry(starts[0]) {
					r.Bad("C20.all", "(*graph).reopen:walk-start", p.Pos(cb.Pos()), fmt.Sprintf("the callback does not start exactly one per-node walk unconditionally (found %d)", len(starts)))
				} else {
					doRe = starts[0].Common().StaticCallee()
					ctb := p.NewTerms(nil)
					rootArg := ""
					for _, a := range starts[0].Common().Args {
						if typeShort(a.Type()) == "eventlogger.linkedNode" {
							rootArg = ctb.Of(a).String()
						}
					}
					r.Check(rootArg == "Field[rootNode](Param(1:pipeline))", "C20.all", "(*graph).reopen:walk-start", p.InstrPos(starts[0]), "walk started at pipeline.rootNode for every pipeline", "walk started at "+rootArg)
				}
			}
		}
	}
	// --- doReopen
	if doRe != nil {
		r.SawFn(p.ShortFn(doRe))
		inv := callsTo(doRe, func(n string, cc *ssa.CallCommon) bool { return n == "invoke eventlogger.Node.Reopen" })
		nodeParam := ""
		for i, prm := range doRe.Params {
			if typeShort(prm.Type()) == "eventlogger.linkedNode" {
				nodeParam = fmt.Sprintf("%d:%s", i, prm.Name())
			}
		}
		okInv := len(inv) == 1 && !inCycle(inv[0].Block()) && dominatesBlockEntry(inv[0])
		if okInv {
			t := tb.Of(inv[0].Common().Value)
			base, ok := t.IsField("node")
			okInv = ok && base.IsParam(nodeParam)
		}
		r.Check(okInv, "C20.all", "doReopen:invoke", p.Pos(doRe.Pos()), "Reopen invoked exactly once, unconditionally, on node.node", "the per-node step does not invoke Reopen exactly once unconditionally on its node")
		rec := callsTo(doRe, func(n string, cc *ssa.CallCommon) bool { return cc.StaticCallee() == doRe })
		if len(rec) != 1 {
			r.Bad("C20.all", "doReopen:children", p.Pos(doRe.Pos()), fmt.Sprintf("%d recursive calls (expected one, in a loop over the successors)", len(rec)))
		} else {
			full, why := c.fullLoop(rec[0], true)
			child := ""
			for _, a := range rec[0].Common().Args {
				if typeShort(a.Type()) == "eventlogger.linkedNode" {
					child = tb.Of(a).String()
				}
			}
			okChild := full && len(child) > 0 && tb.Of(rec[0].Common().Args[len(rec[0].Common().Args)-1]).Op == "Index"
			ct := tb.Of(rec[0].Common().Args[len(rec[0].Common().Args)-1])
			if okChild {
				okChild = ct.Args[0].Is("Field", "next") && ct.Args[0].Args[0].IsParam(nodeParam)
			}
			r.Check(okChild, "C20.all", "doReopen:children", p.InstrPos(rec[0]), "every successor node.next[i] is visited (loop exits: exhausted or error return)", "not every successor is visited: "+why+" (child="+child+")")
			// ... and the loop over the successors is reached whenever the node itself reopened:
			// every return of a nil error lies behind the loop (no "nothing can follow a node like
			// this one" shortcut: registration accepts inner nodes of any type)
			if hdr := innermostHeader(rec[0].Block()); hdr != nil {
				okReach := true
				for _, ret := range Returns(doRe) {
					rv := RetVals(ret)
					if len(rv) == 0 || !isNilConst(rv[len(rv)-1]) {
						continue
					}
					if !hdr.Dominates(ret.Block()) {
						okReach = false
						r.Bad("C20.all", "doReopen:children-reached", p.InstrPos(ret), "the per-node step returns success without having walked the node's successors: nodes linked behind such a node are never reopened, and Broker.Reopen still returns nil")
					}
				}
				if okReach {
					r.Ok("C20.all", "doReopen:children-reached", p.InstrPos(rec[0]), "every successful return of the per-node step lies behind the loop over the successors")
				}
			}
		}
	}
	r.Floor("C20.all", 6)

	// --- C20.carry
	c.errorFlowRule("C20.carry", reopen, nil, false)
	c.errorCarriedOnPaths("C20.carry", reopen, nil)
	if doRe != nil {
		c.errorFlowRule("C20.carry", doRe, nil, false)
		c.errorCarriedOnPaths("C20.carry", doRe, nil)
	}
	if graphReopen != nil {
		c.accumulateRule("C20.carry", graphReopen)
	}
	c.ruleNoFlatten("C20.carry")
	// "every currently registered pipeline": the Range that reopen walks offers every stored pipeline
	// exactly once while pipelines are stored and deleted concurrently (Reopen walks without the Broker
	// lock, and a node's Reopen may call back into the Broker): it IS sync.Map.Range
	c.ruleGraphMap("C20.all", "")
	// "every node of every currently registered pipeline": the chain stored at registration links
	// every listed node (a chain cut short is never walked by Reopen either)
	c.ruleLink("C20.link")
	c.ruleChainImmutable("C20.link")
	// ... and it is linked, by every successful registration, from the nodes registered under the
	// definition's ids AT THAT MOMENT (the commit rule of C05/C07): a registration that keeps an
	// older chain leaves a replaced node in place, which Reopen then never reaches
	nObl := len(c.R.Obls)
	c.ruleCommit()
	for i := nObl; i < len(c.R.Obls); i++ {
		if strings.HasPrefix(c.R.Obls[i].Rule, "C05.commit") || c.R.Obls[i].Rule == "C07.swap" {
			c.R.Obls[i].Rule = "C20.commit"
		}
	}
	// all-nil path returns nil: Reopen's final return is the nil constant
	hasNil := false
	for _, ret := range Returns(reopen) {
		if isNilConst(RetVals(ret)[0]) {
			hasNil = true
		} else {
			t := tb.Of(RetVals(ret)[0])
			if !(t.Op == "Call" && t.Name == "(*eventlogger.graph).reopen") {
				r.Bad("C20.carry", "(*Broker).Reopen:returns", p.InstrPos(ret), "Broker.Reopen returns "+t.String()+", neither nil nor a graph's reopen error")
			}
		}
	}
	r.Check(hasNil, "C20.carry", "(*Broker).Reopen:nil", p.Pos(reopen.Pos()), "returns the nil constant when no graph failed", "no path returns nil")
	r.Floor("C20.carry", 4)
}

// dominatesBlockEntry: the instruction's block dominates every return of the
// function (it is executed on every path that returns normally), unless an
// earlier error return precedes it.
func dominatesBlockEntry(in ssa.Instruction) bool {
	b := in.Block()
	fn := b.Parent()
	// executed unconditionally = its block dominates all blocks reachable... we
	// accept: block is the entry block, or dominates every Return block that is
	// not itself dominated by an earlier return in a block dominating b.
	if b == fn.Blocks[0] {
		return true
	}
	for _, ret := range Returns(fn) {
		if !b.Dominates(ret.Block()) && !ret.Block().Dominates(b) {
			// a return reachable without passing b and not before b
			if !reachableFrom(b)[ret.Block()] {
				// the return is on a branch that bypasses b
				return false
			}
		}
	}
	return true
}

// accumulateRule: in fn, a range callback collects errors into a captured
// accumulator with multierror.Append and fn returns that accumulator's
// ErrorOrNil(): no collected error is lost.
func (c *Ctx) accumulateRule(rule string, fn *ssa.Function) {
	p, r := c.P, c.R
	tb := p.NewTerms(nil)
	construct := p.ShortFn(fn) + ":accumulate"
	// the returned value
	var accCell ssa.Value
	for _, ret := range Returns(fn) {
		rv := RetVals(ret)
		t := tb.Of(rv[len(rv)-1])
		if t.Op == "Call" && t.Name == "(*github.com/hashicorp/go-multierror.Error).ErrorOrNil" {
			if call, ok := rv[len(rv)-1].(*ssa.Call); ok {
				if ld, ok := call.Call.Args[0].(*ssa.UnOp); ok {
					accCell = ld.X
				}
			}
		} else {
			r.Bad(rule, construct, p.InstrPos(ret), "the function returns "+t.String()+" instead of the accumulated errors' ErrorOrNil()")
			return
		}
	}
	if accCell == nil {
		r.Und(rule, construct, p.Pos(fn.Pos()), "accumulator not identified")
		return
	}
	n := 0
	for _, cb := range fn.AnonFuncs {
		eachInstr(cb, func(in ssa.Instruction) {
			call, ok := in.(*ssa.Call)
			if !ok {
				return
			}
			if _, isErr := returnsError(call.Call.Signature()); !isErr || call.Call.Signature().Results().Len() != 1 {
				return
			}
			if sc := call.Call.StaticCallee(); sc == nil || !p.InRepo(sc) {
				return
			}
			n++
			// err != nil branch must append err into the accumulator
			okAcc := false
			for _, ref := range nonDebugRefs(call) {
				bo, ok := ref.(*ssa.BinOp)
				if !ok || bo.Op != token.NEQ {
					continue
				}
				for _, r2 := range nonDebugRefs(bo) {
					iff, ok := r2.(*ssa.If)
					if !ok {
						continue
					}
					eb := iff.Block().Succs[0]
					for _, blk := range cb.Blocks {
						if blk != eb && !eb.Dominates(blk) {
							continue
						}
						for _, x := range blk.Instrs {
							st, ok := x.(*ssa.Store)
							if !ok {
								continue
							}
							// store into the captured accumulator (free variable bound to accCell)
							ctb := p.NewTerms(nil)
							at := ctb.Of(st.Addr)
							vt := ctb.Of(st.Val)
							if blk == eb && at.V == accCell && vt.Op == "Call" && vt.Name == "github.com/hashicorp/go-multierror.Append" && termMentions(vt, call, ctb.Of(call).String()) {
								okAcc = true
							}
							// or: appended to the accumulator's own list, acc.Errors = append(acc.Errors, err)
							if fa, isFA := st.Addr.(*ssa.FieldAddr); isFA && vt.Is("Call", "builtin append") && termMentions(vt, call, ctb.Of(call).String()) {
								if ld, isLd := fa.X.(*ssa.UnOp); isLd && ctb.Of(ld.X).V == accCell {
									if stt, isSt := ld.X.Type().Underlying().(*types.Pointer); isSt {
										_ = stt
										okAcc = true
									}
								}
							}
						}
					}
				}
			}
			r.Check(okAcc, rule, construct, p.InstrPos(call), "a failing per-pipeline walk is appended to the accumulator that is returned",
				"the error of "+calleeName(&call.Call)+" is not appended to the returned accumulator on its error branch")
		})
	}
	if n == 0 {
		r.Und(rule, construct, p.Pos(fn.Pos()), "no fallible call found in the range callback")
	}
	_ = types.Typ
}

// ruleOwnWalk (C20.all / C04.seq Reopen:own-walk): when the exported Reopen wraps a helper that does
// the walk, every return of the wrapper lies behind ITS OWN call of that helper (or hands back the
// context's error). A return that answers with the outcome of somebody else's walk — a call that was
// already in progress and may be past some nodes — reports nodes as reopened that were last reopened
// before this call began: two successful Reopens then leave a node reopened once, which no sequential
// order of the two calls produces.
func (c *Ctx) ruleOwnWalk(rule string, wrapper *ssa.Function, helper ssa.CallInstruction) {
	p, r := c.P, c.R
	n := 0
	for _, ret := range Returns(wrapper) {
		n++
		rv := RetVals(ret)
		own := helper.Block() == ret.Block() || helper.Block().Dominates(ret.Block())
		if !own && len(rv) == 1 {
			if call, ok := rv[0].(*ssa.Call); ok && call.Call.IsInvoke() && call.Call.Method.Name() == "Err" && typeShort(call.Call.Value.Type()) == "context.Context" {
				own = true
			}
		}
		r.Check(own, rule, "(*Broker).Reopen:own-walk", p.InstrPos(ret), "the return lies behind this call's own walk (or hands back the context's error)", "Reopen returns on a path that does not pass its own call of "+calleeName(helper.Common())+": the caller is answered with the outcome of a walk that began before its call (nodes already passed are not reopened again), so two successful Reopens can leave a node reopened once — no sequential order of the calls does that")
	}
	if n == 0 {
		r.Und(rule, "(*Broker).Reopen:own-walk", p.Pos(wrapper.Pos()), "no return found")
	}
}
