package check

import (
	"fmt"
	"go/types"
	"sort"
	"strings"

	"golang.org/x/tools/go/ssa"
)

func isSyncType(t types.Type) bool {
	s := typeShort(t)
	return strings.HasPrefix(s, "sync.")
}

// fieldsOf lists the non-sync fields of a named struct type "pkg.Type".
func (p *Prog) structByShort(short string) *types.Struct {
	for _, sp := range p.SSAPkgs {
		i := strings.Index(short, ".")
		if i < 0 || sp.Pkg.Name() != short[:i] {
			continue
		}
		if !strings.HasPrefix(sp.Pkg.Path(), ModRoot) && !strings.HasPrefix(sp.Pkg.Path(), PkgCtl) {
			continue
		}
		if o := sp.Pkg.Scope().Lookup(short[i+1:]); o != nil {
			if st, ok := o.Type().Underlying().(*types.Struct); ok {
				return st
			}
		}
	}
	return nil
}

// GuardException exempts one writer function of one field, with a reason.
type GuardException struct {
	Field  string // "pkg.Type.field"
	Writer string // function key
	Reason string
}

// guardRule applies the pairwise consistent-lock discipline to every field of
// the owner types: for every post-construction write w and every other
// post-construction access a of the same field there is a lock held in write
// mode at w and (in any mode) at a. A field with no post-construction write is
// trivially fine. Returns the number of fields with writes that were decided.
func (c *Ctx) guardRule(rule string, owners []string, exc []GuardException, control bool) int {
	p, r := c.P, c.R
	must := c.MustLocks()
	want := map[string]bool{}
	for _, o := range owners {
		want[o] = true
	}
	accs := p.CollectAccesses(c.allFuncs(), must, func(o string) bool { return want[o] })
	byField := map[string][]Access{}
	for _, a := range accs {
		if a.Fresh {
			continue
		}
		byField[a.Key()] = append(byField[a.Key()], a)
	}
	decided := 0
	for _, owner := range owners {
		st := p.structByShort(owner)
		if st == nil {
			r.Und(rule, owner, "", "owner type not found in the loaded program")
			continue
		}
		for i := 0; i < st.NumFields(); i++ {
			fld := st.Field(i)
			if isSyncType(fld.Type()) {
				continue
			}
			key := owner + "." + fld.Name()
			as := byField[key]
			var writes, all []Access
			for _, a := range as {
				excepted := false
				if a.Write {
					for _, e := range exc {
						if e.Field == key && e.Writer == p.ShortFn(a.Fn) {
							excepted = true
							r.Exceptions = append(r.Exceptions, fmt.Sprintf("%s: writer %s of %s exempt: %s", rule, e.Writer, key, e.Reason))
						}
					}
				}
				if excepted {
					continue
				}
				all = append(all, a)
				if a.Write {
					writes = append(writes, a)
				}
			}
			for _, a := range all {
				r.SawFn(p.ShortFn(a.Fn))
			}
			r.CallSites += len(all)
			if len(writes) == 0 {
				if !control {
					r.Add(Obl{Rule: rule, Construct: key, Status: OK, Trivial: true, Detail: fmt.Sprintf("no post-construction write (%d reads)", len(all))})
				}
				continue
			}
			decided++
			// pairwise discipline
			type bad struct {
				w, a Access
			}
			var bads []bad
			for _, w := range writes {
				for _, a := range all {
					ok := false
					for L, m := range w.Held {
						if m == 'W' {
							if _, h := a.Held[L]; h {
								ok = true
							}
						}
					}
					if !ok {
						bads = append(bads, bad{w, a})
					}
				}
			}
			if len(bads) == 0 {
				// name the common write locks for the report
				var common LockSet
				for _, w := range writes {
					common = meet(common, w.Held, true)
				}
				o := Obl{Rule: rule, Construct: key, Status: OK, Detail: fmt.Sprintf("%d writes, %d accesses, every write/access pair shares a lock held for writing at the write; locks at all writes: %s", len(writes), len(all), common)}
				if control {
					if isBadName(key) {
						r.Und(rule, key, "", "positive control not flagged")
					}
					continue
				}
				r.Add(o)
				continue
			}
			// group offending pairs by the accessor that lacks the lock
			byFn := map[string][]bad{}
			for _, b := range bads {
				// blame the side holding fewer locks
				blame := b.a
				if len(b.w.Held) == 0 || (len(b.a.Held) > 0 && len(b.w.Held) <= len(b.a.Held) && !hasW(b.w.Held)) {
					blame = b.w
				}
				k := p.ShortFn(blame.Fn)
				byFn[k] = append(byFn[k], b)
			}
			var fns []string
			for k := range byFn {
				fns = append(fns, k)
			}
			sort.Strings(fns)
			for _, fnk := range fns {
				bs := byFn[fnk]
				b := bs[0]
				var wit []string
				for i, x := range bs {
					if i >= 4 {
						break
					}
					wit = append(wit, fmt.Sprintf("write in %s at %s holding %s  vs  %s in %s at %s holding %s",
						p.ShortFn(x.w.Fn), p.InstrPos(x.w.Instr), x.w.Held, rw(x.a), p.ShortFn(x.a.Fn), p.InstrPos(x.a.Instr), x.a.Held))
				}
				pos := p.InstrPos(b.a.Instr)
				if p.ShortFn(b.a.Fn) != fnk {
					pos = p.InstrPos(b.w.Instr)
				}
				construct := key + "@" + fnk
				if control {
					if isBadName(key) {
						r.ControlFired(rule, construct, pos, wit[0])
					} else {
						r.Und(rule, construct, pos, "negative control flagged: "+wit[0])
					}
					continue
				}
				r.Bad(rule, construct, pos, fmt.Sprintf("field %s is written and accessed without a common lock (%d conflicting pairs blamed on %s)", key, len(bs), fnk), wit...)
			}
		}
	}
	return decided
}

func hasW(s LockSet) bool {
	for _, m := range s {
		if m == 'W' {
			return true
		}
	}
	return false
}

func rw(a Access) string {
	if a.Write {
		return "write"
	}
	return "read"
}

// pairingRule reports the pairing issues of locks accepted by want.
func (c *Ctx) pairingRule(rule string, wantFn func(fn *ssa.Function) bool, control bool) {
	p, r := c.P, c.R
	must := c.MustLocks()
	// count acquisitions examined
	acq := 0
	flagged := map[*ssa.Function]bool{}
	for _, is := range must.Issues {
		if !wantFn(is.Fn) {
			continue
		}
		flagged[is.Fn] = true
		construct := p.ShortFn(is.Fn) + ":" + is.Class
		if control {
			if isBadName(p.ShortFn(is.Fn)) {
				r.ControlFired(rule, construct, p.InstrPos(is.Instr), is.Detail)
			} else {
				r.Und(rule, construct, p.InstrPos(is.Instr), "negative control flagged: "+is.Detail)
			}
			continue
		}
		r.Bad(rule, construct, p.InstrPos(is.Instr), is.Detail)
	}
	for _, f := range c.allFuncs() {
		if !wantFn(f) {
			continue
		}
		n := 0
		for _, b := range f.Blocks {
			for _, in := range b.Instrs {
				if ci, ok := in.(ssa.CallInstruction); ok {
					if op := lockOpOf(ci.Common()); op != nil && op.Acquire {
						n++
					}
				}
			}
		}
		if n == 0 {
			continue
		}
		acq += n
		r.SawFn(p.ShortFn(f))
		if control {
			if isBadName(p.ShortFn(f)) && !flagged[f] {
				r.Und(rule, p.ShortFn(f), "", "positive control not flagged")
			}
			continue
		}
		if !flagged[f] {
			r.Ok(rule, p.ShortFn(f), p.Pos(f.Pos()), fmt.Sprintf("%d acquisition(s), each released exactly once in the same mode on every path", n))
		}
	}
	r.CallSites += acq
}

// extension points of property C12 (user code that may call any Broker method)
func isExtensionInvoke(cc *ssa.CallCommon, ifacePkgs []string) (string, bool) {
	if !cc.IsInvoke() {
		return "", false
	}
	m := cc.Method
	recvT := cc.Value.Type()
	n, ok := recvT.(*types.Named)
	if !ok || n.Obj().Pkg() == nil {
		return "", false
	}
	okPkg := false
	for _, ip := range ifacePkgs {
		if n.Obj().Pkg().Path() == ip {
			okPkg = true
		}
	}
	if !okPkg {
		return "", false
	}
	name := n.Obj().Name() + "." + m.Name()
	switch name {
	case "Node.Process", "Node.Reopen", "Closer.Close":
		return name, true
	}
	return "", false
}

// lockOrderRules decides C12.self, C12.order, C12.open over the functions
// accepted by scope. brokerLock is the class of the registry lock.
func (c *Ctx) lockOrderRules(prefix string, scope func(fn *ssa.Function) bool, brokerLocks []string, ifacePkgs []string, control bool, e1ok func() (bool, string)) {
	p, r := c.P, c.R
	full := c.MayLocks()
	// graph without the Sender.Send edges leaving package gated (exception E1)
	if c.mayCut == nil {
		c.mayCut = p.AnalyseLocks(c.allFuncs(), false, func(e *CallEdge) bool {
			if ci, ok := e.Site.(ssa.CallInstruction); ok && ci.Common().IsInvoke() {
				if n, ok := ci.Common().Value.Type().(*types.Named); ok && n.Obj().Pkg() != nil &&
					n.Obj().Pkg().Path() == PkgGated && n.Obj().Name() == "Sender" {
					return true
				}
			}
			return false
		})
	}
	cut := c.mayCut
	isBroker := func(cl string) bool {
		for _, b := range brokerLocks {
			if b == cl {
				return true
			}
		}
		return false
	}
	type edge struct{ from, to string }
	order := map[edge][]string{}
	nAcq, nInv := 0, 0
	for _, f := range c.allFuncs() {
		if !scope(f) {
			continue
		}
		for _, b := range f.Blocks {
			for _, in := range b.Instrs {
				ci, ok := in.(ssa.CallInstruction)
				if !ok {
					continue
				}
				if _, isDefer := in.(*ssa.Defer); isDefer {
					continue
				}
				cc := ci.Common()
				if op := lockOpOf(cc); op != nil && op.Acquire {
					nAcq++
					r.SawFn(p.ShortFn(f))
					held := full.At(in)
					heldCut := cut.At(in)
					construct := p.ShortFn(f) + ":" + op.Class
					if _, self := held[op.Class]; self {
						_, inCut := heldCut[op.Class]
						wit := append([]string{fmt.Sprintf("%s acquires %s at %s while it may already be held:", p.ShortFn(f), op.Class, p.InstrPos(in))}, full.WhyChain(f, op.Class)...)
						switch {
						case control:
							if isBadName(p.ShortFn(f)) || isBadName(op.Class) {
								r.ControlFired(prefix+".self", construct, p.InstrPos(in), strings.Join(wit, " | "))
							} else {
								r.Und(prefix+".self", construct, p.InstrPos(in), "negative control flagged: "+strings.Join(wit, " | "))
							}
						case !inCut && op.Class == "gated.Filter.l" && e1ok != nil:
							if ok, why := e1ok(); ok {
								r.Exceptions = append(r.Exceptions, "E1: class-level self edge gated.Filter.l -> gated.Filter.l through Sender.Send accepted at "+construct+": "+why)
								r.Ok(prefix+".self", construct, p.InstrPos(in), "re-entry through Sender.Send only; conditional exception E1 holds: "+why)
							} else {
								r.Bad(prefix+".self", construct, p.InstrPos(in), "lock may be re-acquired through Sender.Send and exception E1 does not hold: "+why, wit...)
							}
						default:
							r.Bad(prefix+".self", construct, p.InstrPos(in), "lock class may be re-acquired while held (self-deadlock on a sync.(RW)Mutex)", wit...)
						}
					} else if !control {
						r.Ok(prefix+".self", construct, p.InstrPos(in), fmt.Sprintf("locks possibly held here: %s", held))
					}
					for h := range held {
						if h != op.Class {
							e := edge{h, op.Class}
							if order[e] == nil {
								order[e] = append([]string{fmt.Sprintf("%s acquires %s at %s while %s may be held:", p.ShortFn(f), op.Class, p.InstrPos(in), h)}, full.WhyChain(f, h)...)
							}
						}
					}
					continue
				}
				if name, ok := isExtensionInvoke(cc, ifacePkgs); ok {
					nInv++
					r.SawFn(p.ShortFn(f))
					held := full.At(in)
					construct := p.ShortFn(f) + "->" + name
					var bl string
					for h := range held {
						if isBroker(h) {
							bl = h
						}
					}
					// any other lock of the Broker's own package held around user code is the same
					// hazard one level down: user code that calls back into the Broker meets a registry
					// call that holds Broker.lock and waits for that lock (graphMap's, say) — an order
					// inversion that leaves the Broker locked for good
					if bl == "" && !control && PkgPathOf(f) == PkgRoot {
						var hs []string
						for h := range held {
							if strings.HasPrefix(h, "eventlogger.") && !strings.HasPrefix(h, "eventlogger.Event.") && !strings.HasPrefix(h, "eventlogger.FileSink.") {
								hs = append(hs, h)
							}
						}
						sort.Strings(hs)
						if len(hs) > 0 {
							bl = hs[0]
						}
					}
					if bl != "" {
						wit := append([]string{fmt.Sprintf("%s invokes %s at %s while %s (mode %c) may be held:", p.ShortFn(f), name, p.InstrPos(in), bl, held[bl])}, full.WhyChain(f, bl)...)
						if control {
							if isBadName(p.ShortFn(f)) || isBadName(bl) {
								r.ControlFired(prefix+".open", construct, p.InstrPos(in), strings.Join(wit, " | "))
							} else {
								r.Und(prefix+".open", construct, p.InstrPos(in), "negative control flagged")
							}
						} else {
							r.Bad(prefix+".open", construct, p.InstrPos(in), fmt.Sprintf("extension point %s is invoked while the registry lock %s may be held: a user implementation calling back into the Broker deadlocks", name, bl), wit...)
						}
					} else if !control {
						r.Ok(prefix+".open", construct, p.InstrPos(in), fmt.Sprintf("registry lock not held; locks possibly held: %s", held))
					}
				}
			}
		}
	}
	r.CallSites += nAcq + nInv
	if control {
		return
	}
	// cycles in the lock-order graph
	adj := map[string][]string{}
	for e := range order {
		adj[e.from] = append(adj[e.from], e.to)
	}
	for k := range adj {
		sort.Strings(adj[k])
	}
	var nodes []string
	for k := range adj {
		nodes = append(nodes, k)
	}
	sort.Strings(nodes)
	reported := map[string]bool{}
	for _, start := range nodes {
		// DFS for a cycle back to start
		var path []string
		var dfs func(n string, depth int) bool
		vis := map[string]bool{}
		dfs = func(n string, depth int) bool {
			path = append(path, n)
			for _, m := range adj[n] {
				if m == start {
					return true
				}
				if !vis[m] && depth < 8 {
					vis[m] = true
					if dfs(m, depth+1) {
						return true
					}
				}
			}
			path = path[:len(path)-1]
			return false
		}
		if dfs(start, 0) {
			cyc := append(append([]string{}, path...), start)
			// canonical key: rotate to smallest
			min := 0
			for i := range path {
				if path[i] < path[min] {
					min = i
				}
			}
			rot := append(append([]string{}, path[min:]...), path[:min]...)
			key := strings.Join(rot, "->")
			if reported[key] {
				continue
			}
			reported[key] = true
			var wit []string
			for i := 0; i+1 < len(cyc); i++ {
				wit = append(wit, order[edge{cyc[i], cyc[i+1]}]...)
			}
			r.Bad(prefix+".order", "cycle:"+key, "", "lock-order cycle: "+strings.Join(cyc, " -> "), wit...)
		}
	}
	var es []string
	for e := range order {
		es = append(es, e.from+" -> "+e.to)
	}
	sort.Strings(es)
	if len(reported) == 0 {
		r.Ok(prefix+".order", "lock-order-graph", "", fmt.Sprintf("acyclic; %d edges: %s", len(es), strings.Join(es, "; ")))
	}
}
