package check

import (
	"fmt"
	"go/token"
	"go/types"
	"strings"

	"golang.org/x/tools/go/ssa"
)

func init() {
	Register("C05", runC05)
	Register("C06", runC06)
	Register("C07", runC07)
}

// ---------------------------------------------------------------------------
// registry effects

type effects struct {
	c       *Ctx
	may     map[*ssa.Function]int // 0 unknown, 1 no, 2 yes
	atomic  map[*ssa.Function]int
	exempts []string
}

func (c *Ctx) newEffects() *effects {
	return &effects{c: c, may: map[*ssa.Function]int{}, atomic: map[*ssa.Function]int{}}
}

// directEffect classifies one instruction as a registry effect.
func (e *effects) directEffect(tb *Terms, in ssa.Instruction) (string, bool) {
	switch x := in.(type) {
	case *ssa.MapUpdate:
		m := tb.Of(x.Map)
		if m.Is("Field", "nodes") {
			return "assignment into Broker.nodes", true
		}
		if m.Is("Field", "graphs") {
			if al, ok := x.Value.(*ssa.Alloc); ok && typeShort(al.Type()) == "eventlogger.graph" {
				// exempt by table: a fresh, empty graph adds no pipeline, node or usage
				if len(litStores(al)) == 0 {
					return "", false
				}
			}
			return "assignment into Broker.graphs", true
		}
	case *ssa.Store:
		if fa, ok := x.Addr.(*ssa.FieldAddr); ok && typeShort(fa.X.Type()) == "eventlogger.nodeUsage" && !isFresh(fa.X) {
			return "store to a registered node's usage record", true
		}
	case ssa.CallInstruction:
		cc := x.Common()
		if b, ok := cc.Value.(*ssa.Builtin); ok && b.Name() == "delete" && tb.Of(cc.Args[0]).Is("Field", "nodes") {
			return "delete from Broker.nodes", true
		}
		switch calleeName(cc) {
		case "(*eventlogger.graphMap).Store":
			return "graphMap.Store (pipeline registered)", true
		case "(*eventlogger.graphMap).Delete":
			return "graphMap.Delete (pipeline removed)", true
		case "(*eventlogger.NodeController).Close", "invoke eventlogger.Closer.Close":
			return "node closed", true
		}
	}
	return "", false
}

func litStores(al *ssa.Alloc) []*ssa.Store {
	var out []*ssa.Store
	for _, r := range nonDebugRefs(al) {
		if fa, ok := r.(*ssa.FieldAddr); ok {
			for _, r2 := range nonDebugRefs(fa) {
				if st, ok := r2.(*ssa.Store); ok && st.Addr == ssa.Value(fa) {
					out = append(out, st)
				}
			}
		}
	}
	return out
}

func (e *effects) mayEffect(fn *ssa.Function) bool {
	if fn == nil || fn.Blocks == nil || !e.c.P.InRepo(fn) {
		return false
	}
	if v := e.may[fn]; v != 0 {
		return v == 2
	}
	e.may[fn] = 1
	tb := e.c.P.NewTerms(nil)
	res := false
	eachInstr(fn, func(in ssa.Instruction) {
		if res {
			return
		}
		if _, ok := e.directEffect(tb, in); ok {
			res = true
			return
		}
		if ci, ok := in.(ssa.CallInstruction); ok {
			if sc := ci.Common().StaticCallee(); sc != nil && sc != fn && e.mayEffect(sc) {
				res = true
			}
		}
	})
	if res {
		e.may[fn] = 2
	}
	return res
}

// failed reports whether the path ends in failure: the last error result is
// not the nil constant (or, for bool-first functions named by boolFail, result 0 is false).
func pathFailed(pa *Path, boolFail bool) (bool, bool) {
	rv := pa.RetVals()
	if rv == nil {
		return false, false
	}
	if boolFail {
		if b, ok := constBool(rv[0]); ok {
			return !b, true
		}
		return false, false
	}
	idx, ok := returnsError(pa.Fn.Signature)
	if !ok {
		return false, false
	}
	return !isNilConst(rv[idx]), true
}

// pathEffects lists the effects executed on the path, in order.
func (e *effects) pathEffects(pa *Path) []string {
	var out []string
	for _, s := range pa.Steps {
		if _, isDefer := s.In.(*ssa.Defer); isDefer && !s.Deferred {
			continue
		}
		tb := pa.TermsAt(s)
		if what, ok := e.directEffect(tb, s.In); ok {
			out = append(out, what+" at "+e.c.P.InstrPos(s.In))
			continue
		}
		ci, ok := s.In.(ssa.CallInstruction)
		if !ok {
			continue
		}
		sc := ci.Common().StaticCallee()
		if sc == nil || !e.mayEffect(sc) {
			continue
		}
		// a failure-atomic callee whose failure is established on this path contributes nothing
		if e.failureAtomic(sc) {
			if call, ok := s.In.(*ssa.Call); ok {
				idx, hasErr := returnsError(sc.Signature)
				if hasErr {
					failed, found := hasAtom(pa, func(at Atom) bool {
						if at.Op != "eq" || !at.R.Is("Const", "nil") {
							return false
						}
						if sc.Signature.Results().Len() == 1 {
							return at.L.V == ssa.Value(call)
						}
						return at.L.Op == "Extract" && at.L.Name == fmt.Sprint(idx) && at.L.Args[0].V == ssa.Value(call)
					})
					if found && !failed {
						continue // err != nil on this path: callee changed nothing
					}
				}
			}
		}
		out = append(out, "call of "+funcShort(sc)+" (has registry effects) at "+e.c.P.InstrPos(s.In))
	}
	return out
}

// failureAtomic: on every path of fn ending in failure, no effect precedes.
func (e *effects) failureAtomic(fn *ssa.Function) bool {
	if v := e.atomic[fn]; v != 0 {
		return v == 2
	}
	e.atomic[fn] = 1 // assume not (cycle guard)
	paths, _, err := e.c.P.EnumPaths(fn, PathOpts{})
	if err != nil {
		return false
	}
	ok := true
	for _, pa := range paths {
		failed, known := pathFailed(pa, false)
		if known && failed && len(e.pathEffects(pa)) > 0 {
			ok = false
		}
	}
	if ok {
		e.atomic[fn] = 2
	}
	return ok
}

// ---------------------------------------------------------------------------

func runC05(c *Ctx) {
	p, r := c.P, c.R
	r.Explanation = "Decides failure atomicity and well-formedness structurally: on every feasible path of RegisterPipeline, RegisterNode, RemoveNode (through removeNode/unregisterNode) ending in a non-nil error, and every path of RemovePipelineAndNodes returning false, no registry effect (assignment/delete on Broker.nodes, store to a usage record, graphMap.Store/Delete, node Close) precedes the return — interprocedurally, a failure-atomic callee whose failure is established on the path contributes nothing; the commit point graphMap.Store is reached only after validate, every node lookup, linking, structural validation (with a nil parent) and the overwrite test succeeded; Pipeline.validate's four conditions each force a non-nil result and the all-clear path returns nil; the full decision table of the structural validator's per-node step; IsAnyPipelineRegistered. Equivalence of the composed recursive predicate with the specification over all type sequences is not decided. One recorded known finding: RemoveNode returns the Close error after the node was unregistered and closed. C05.map: graphMap.Store/Delete forward their arguments unconditionally. C05.section (one critical section) and C05.policy (the policy consulted is the same-id entry's only). C05.recover: a recovering function returns its result variables as they stand; the closure stores the error and the `removed` flag. C05.store-validated: every store into the pipeline map stores a validated chain. C05.wellformed: a node in use is not unregistered without force. C05.exact: RegisterPipeline fails only for the six listed causes."
	r.NotDecided = []string{"equivalence of the recursive validator + linkNodes with the specification over all node-type sequences", "insertion of a fresh empty graph by a failing RegisterPipeline is exempt by table (adds no pipeline, node or usage)"}
	c.ruleGraphMap("", "C05.map")
	c.ruleRecoverResults("C05.recover", []string{PkgRoot}, true)
	c.ruleStoreSites("C05.store-validated", "")
	c.ruleOneSection("C05.section")
	c.ruleNilNode("C05.nilnode")
	// "only well-formed pipelines are ever registered": every node a registered pipeline lists stays
	// registered — unregisterNode refuses a non-forced removal of a node that is in use (the decision
	// table of C06.release under C05)
	c.ruleReleaseTableAs("C05.wellformed")
	c.ruleRejectCauses("C05.exact")
	// "no existing pipeline with that ID and type forbids overwriting": the policy consulted is that entry's, no other
	c.rulePolicySource("C05.policy")
	// the options only ever hold a valid policy: RegisterNode decides the carry-over of the in-use
	// count by a switch over the two valid values (the options' table, shared with C06.carry / C07.opts)
	c.ruleOptsTable("C05.policy", []string{"WithPipelineRegistrationPolicy", "WithNodeRegistrationPolicy"})
	ef := c.newEffects()
	type target struct {
		recv, name string
		boolFail   bool
	}
	targets := []target{{"Broker", "RegisterPipeline", false}, {"Broker", "RegisterNode", false}, {"Broker", "RemoveNode", false}, {"Broker", "removeNode", false},
		{"Broker", "unregisterNode", false}, {"Broker", "unregisterPipelineAndNodes", false}, {"Broker", "RemovePipelineAndNodes", true}, {"Broker", "RemovePipeline", false}}
	// the call whose error a return hands back: the call itself, or the error component of its result tuple
	delegate := func(v ssa.Value) *ssa.Call {
		if call, ok := v.(*ssa.Call); ok {
			return call
		}
		if ex, ok := v.(*ssa.Extract); ok {
			if call, ok := ex.Tuple.(*ssa.Call); ok {
				return call
			}
		}
		return nil
	}
	// a Broker method an API function delegates to is decided as well (the body of RegisterNode moved into a helper)
	addTarget := func(callee *ssa.Function) {
		if callee == nil || callee.Signature.Recv() == nil || typeShort(callee.Signature.Recv().Type()) != "eventlogger.Broker" {
			return
		}
		for _, t := range targets {
			if t.name == callee.Name() {
				return
			}
		}
		targets = append(targets, target{"Broker", callee.Name(), false})
	}
	for ti := 0; ti < len(targets); ti++ {
		t := targets[ti]
		fn := p.Method(PkgRoot, t.recv, t.name)
		if fn == nil {
			if t.name == "RegisterPipeline" || t.name == "RegisterNode" || t.name == "RemoveNode" || t.name == "RemovePipelineAndNodes" {
				r.Und("C05.atomic", "anchor:"+t.name, "", "API function not found")
			}
			continue
		}
		r.SawFn(p.ShortFn(fn))
		paths := c.enum("C05.atomic", fn, PathOpts{})
		nFail := 0
		for _, pa := range paths {
			failed, known := pathFailed(pa, t.boolFail)
			if !known {
				if _, isRet := pa.End.(*ssa.Return); isRet {
					r.Und("C05.atomic", p.ShortFn(fn), p.InstrPos(pa.End), "cannot decide whether this return reports failure: "+p.PathSummary(pa))
				}
				continue
			}
			if !failed {
				continue
			}
			nFail++
			effs := ef.pathEffects(pa)
			if len(effs) == 0 {
				r.Ok("C05.atomic", p.ShortFn(fn)+":failure-paths", p.Pos(fn.Pos()), "no registry effect precedes a failing return")
				continue
			}
			// failure atomicity delegated: the function returns exactly the error of a callee
			// that is itself analysed (its own report covers the defect)
			if len(effs) == 1 && strings.HasPrefix(effs[0], "call of ") {
				rv := pa.RetVals()
				idx, _ := returnsError(fn.Signature)
				if !t.boolFail && idx < len(rv) {
					if call := delegate(rv[idx]); call != nil && call.Call.StaticCallee() != nil && strings.Contains(effs[0], funcShort(call.Call.StaticCallee())) {
						r.Ok("C05.atomic", p.ShortFn(fn)+":delegates", p.InstrPos(pa.End), "returns the error of "+funcShort(call.Call.StaticCallee())+" unchanged; failure atomicity is decided there")
						addTarget(call.Call.StaticCallee())
						continue
					}
				}
			}
			// one construct per distinct kind of effect (not per line): a recorded finding about one
			// effect must not hide a different effect that later appears on the same failing path
			seenKind := map[string]bool{}
			// the call whose error is handed back unchanged is the failing operation itself, not an
			// effect preceding the failure (same delegation as in the single-effect case above)
			failing := ""
			if rv := pa.RetVals(); !t.boolFail && rv != nil {
				if idx, ok := returnsError(fn.Signature); ok && idx < len(rv) {
					if call := delegate(rv[idx]); call != nil && call.Call.StaticCallee() != nil {
						failing = "call of " + funcShort(call.Call.StaticCallee()) + " "
						addTarget(call.Call.StaticCallee())
					}
				}
			}
			for _, e := range effs {
				kind := e
				if i := strings.Index(kind, " at "); i > 0 {
					kind = kind[:i]
				}
				if seenKind[kind] || (failing != "" && strings.HasPrefix(kind, failing)) {
					continue
				}
				seenKind[kind] = true
				r.Bad("C05.atomic", p.ShortFn(fn)+":error-after:"+kind, p.InstrPos(pa.End),
					"a call that reports failure has already changed the registry: "+strings.Join(effs, "; "), p.PathSummary(pa))
			}
		}
		if nFail == 0 && t.name != "RemovePipeline" && t.name != "removeNode" {
			r.Und("C05.atomic", p.ShortFn(fn), p.Pos(fn.Pos()), "no failing path found")
		}
	}
	r.Notes = append(r.Notes, "exempt by table: inserting a fresh empty graph under a new event type is not a registry effect")

	c.ruleCommit()
	c.ruleValidateDef()
	c.ruleShapeTable()
	c.ruleAnyRegistered()
}

// ruleCommit: C05.commit
func (c *Ctx) ruleCommit() {
	p, r := c.P, c.R
	const rule = "C05.commit"
	fn := c.Fn(rule, PkgRoot, "Broker", "RegisterPipeline")
	if fn == nil {
		return
	}
	paths := c.enum(rule, fn, PathOpts{Inline: inlineSmall("(eventlogger.Pipeline).validate", "eventlogger.getOpts", "eventlogger.linkNodes", "(*eventlogger.graph).doValidate",
		"(*eventlogger.graphMap).Nodes", "(*eventlogger.graphMap).Store", "(*eventlogger.graphMap).Delete", "(*eventlogger.graphMap).Range", "(*eventlogger.Broker).releaseNodes", "(*eventlogger.linkedNode).flatten")})
	nStore := 0
	for _, pa := range paths {
		var store *ssa.Call
		var storeStep Step
		for _, s := range pa.CallsOn() {
			if ci, ok := s.In.(*ssa.Call); ok && calleeName(&ci.Call) == "(*eventlogger.graphMap).Store" {
				if store != nil {
					r.Bad("C07.swap", "RegisterPipeline:store-once", p.InstrPos(ci), "more than one Store on a path")
				}
				store, storeStep = ci, s
			}
		}
		if store == nil {
			continue
		}
		nStore++
		stb := pa.TermsAt(storeStep)
		need := map[string]bool{}
		var link *ssa.Call
		for _, at := range pa.Atoms {
			if at.Op != "eq" || !at.R.Is("Const", "nil") || at.Neg {
				continue
			}
			switch {
			case at.L.Op == "Call" && at.L.Name == "(eventlogger.Pipeline).validate" && at.L.Args[0].IsParam("1:def"):
				need["validate"] = true
			case at.L.Op == "Extract" && at.L.Name == "1" && at.L.Args[0].Op == "Call" && at.L.Args[0].Name == "eventlogger.linkNodes":
				need["link"] = true
				link, _ = at.L.Args[0].V.(*ssa.Call)
			case at.L.Op == "Call" && at.L.Name == "(*eventlogger.graph).doValidate":
				if len(at.L.Args) == 3 && at.L.Args[1].Is("Const", "nil") && at.L.Args[2].Op == "Extract" && at.L.Args[2].Name == "0" && at.L.Args[2].Args[0].Name == "eventlogger.linkNodes" {
					need["shape"] = true
				}
			case at.L.Op == "Extract" && at.L.Args[0].Op == "Call" && at.L.Args[0].Name == "eventlogger.getOpts":
				need["opts"] = true
			}
		}
		// overwrite test: pol == DenyOverwrite is false on this path
		for _, at := range pa.Atoms {
			if at.Op == "eq" && at.R.Is("Const", `"DenyOverwrite"`) && at.Neg {
				need["policy"] = true
			}
		}
		var missing []string
		for _, k := range []string{"validate", "opts", "link", "shape", "policy"} {
			if !need[k] {
				missing = append(missing, k)
			}
		}
		if len(missing) > 0 {
			r.Bad(rule, "RegisterPipeline:commit", p.InstrPos(store), "the pipeline is stored on a path that did not establish: "+strings.Join(missing, ", ")+" (validate/getOpts/linkNodes/doValidate(nil, root) succeeded, policy is not DenyOverwrite)", p.PathSummary(pa))
			continue
		}
		// what is stored: key def.PipelineID, value fresh registeredPipeline{rootNode: link#0, policy: opts.withPipelineRegistrationPolicy}
		okWhat := stb.Of(store.Call.Args[1]).String() == "Field[PipelineID](Param(1:def))"
		gt := stb.Of(store.Call.Args[0])
		gbase, okg := gt.IsFieldAddr("roots")
		if okg {
			gs := stb.Of(pa.Resolve(storeStep, gbase.V)).String()
			_ = gs
		}
		reg, isAlloc := pa.Resolve(storeStep, store.Call.Args[2]).(*ssa.Alloc)
		if isAlloc && link != nil {
			f := litFields(pa, reg, stepIndex(pa, store))
			okWhat = okWhat && stb.Of(f["rootNode"]).String() == "Extract[0]("+stb.Of(link).String()+")" &&
				stb.Of(f["registrationPolicy"]).String() == "Field[withPipelineRegistrationPolicy](Extract[0](Call[eventlogger.getOpts](Param(2:opt))))"
			// linkNodes(nodes, def.NodeIDs)
			okWhat = okWhat && stb.Of(link.Call.Args[1]).String() == "Field[NodeIDs](Param(1:def))"
		} else {
			okWhat = false
		}
		// the graph stored into is the one of def.EventType (existing or freshly inserted under it)
		okGraph := false
		if okg {
			gv := pa.Resolve(storeStep, gbase.V)
			if gbase.V != nil {
				gv = pa.Resolve(storeStep, gbase.V)
			}
			gtS := stb.Of(gv).String()
			if gtS == "Extract[0](Lookup(Field[graphs](Param(0:b)),Field[EventType](Param(1:def))))" || graphOfTypeCall(stb, stb.Of(gv)) {
				okGraph = true
			}
			if al, ok := gv.(*ssa.Alloc); ok {
				for _, s2 := range pa.Steps {
					if mu, ok := s2.In.(*ssa.MapUpdate); ok && pa.Resolve(s2, mu.Value) == ssa.Value(al) {
						mt := pa.TermsAt(s2)
						if mt.Of(mu.Map).String() == "Field[graphs](Param(0:b))" && mt.Of(mu.Key).String() == "Field[EventType](Param(1:def))" {
							okGraph = true
						}
					}
				}
			}
		}
		r.Check(okWhat && okGraph, rule, "RegisterPipeline:commit", p.InstrPos(store),
			"Store(def.PipelineID, fresh {rootNode: linkNodes(nodes, def.NodeIDs)#0, policy: opts}) into the graph of def.EventType, after validate, options, linking, doValidate(nil, root) and the overwrite test",
			"what is stored, or where, does not match the definition being registered")
	}
	if nStore == 0 {
		r.Und(rule, "RegisterPipeline:commit", p.Pos(fn.Pos()), "no path reaches graphMap.Store")
	}
	// node lookup loop: nodes[i] = b.nodes[def.NodeIDs[i]].node with error exit on miss. The loop may
	// live in RegisterPipeline or in a package-local helper it calls with def.NodeIDs.
	okLoop := false
	type cand struct {
		f    *ssa.Function
		call *ssa.Call
	}
	cands := []cand{{fn, nil}}
	eachInstr(fn, func(in ssa.Instruction) {
		if call, ok := in.(*ssa.Call); ok {
			if sc := call.Call.StaticCallee(); sc != nil && PkgPathOf(sc) == PkgRoot && sc.Blocks != nil && sc != fn {
				cands = append(cands, cand{sc, call})
			}
		}
	})
	for _, cd := range cands {
		cd := cd
		ctb := p.NewTerms(func(v ssa.Value) ssa.Value {
			if prm, ok := v.(*ssa.Parameter); ok && cd.call != nil {
				for i, q := range cd.f.Params {
					if q == prm && i < len(cd.call.Call.Args) {
						return cd.call.Call.Args[i]
					}
				}
			}
			return nil
		})
		eachInstr(cd.f, func(in ssa.Instruction) {
			st, ok := in.(*ssa.Store)
			if !ok {
				return
			}
			ia, ok := st.Addr.(*ssa.IndexAddr)
			if !ok || typeShort(st.Val.Type()) != "eventlogger.Node" {
				return
			}
			v := ctb.Of(st.Val)
			// value: Field[node](Extract[0](Lookup(Field[nodes](b), <elem of def.NodeIDs at idx>)))
			if !v.Is("Field", "node") || v.Args[0].Op != "Extract" || v.Args[0].Args[0].Op != "Lookup" || !v.Args[0].Args[0].Args[0].Is("Field", "nodes") {
				return
			}
			key := v.Args[0].Args[0].Args[1]
			if key.Op != "Index" || key.Args[0].String() != "Field[NodeIDs](Param(1:def))" {
				return
			}
			// same index for slot and id, the filled slice is what linkNodes receives
			if ia.Index != nil && key.Args[1].V == ia.Index {
				if full, _ := c.fullLoop(in, true); full {
					okLoop = true
				}
			}
		})
	}
	r.Check(okLoop, rule, "RegisterPipeline:node-lookup", p.Pos(fn.Pos()), "slot i is filled from b.nodes[def.NodeIDs[i]].node for every i (full loop; a miss returns an error)", "the node-lookup loop does not fill slot i from id i for every i")
	if okLoop {
		// a miss returns an error (Extract[1](Lookup) false -> error return): covered by C05.atomic paths + explicit test
		miss := false
		for _, pa := range paths {
			if pol, found := hasAtom(pa, func(at Atom) bool {
				return at.Op == "true" && at.L.Op == "Extract" && at.L.Name == "1" && at.L.Args[0].Op == "Lookup" && at.L.Args[0].Args[0].Is("Field", "nodes") &&
					at.L.Args[0].Args[1].Op == "Index" && at.L.Args[0].Args[1].Args[0].Is("Field", "NodeIDs")
			}); found && !pol {
				failed, _ := pathFailed(pa, false)
				if failed {
					miss = true
				} else {
					r.Bad(rule, "RegisterPipeline:node-missing", p.InstrPos(pa.End), "an unregistered node id does not make RegisterPipeline fail")
				}
			}
		}
		r.Check(miss, rule, "RegisterPipeline:node-missing", p.Pos(fn.Pos()), "an unregistered node id returns an error", "no failing path for an unregistered node id")
	}
}

// ruleValidateDef: C05.validate
func (c *Ctx) ruleValidateDef() {
	p, r := c.P, c.R
	const rule = "C05.validate"
	fn := c.Fn(rule, PkgRoot, "Pipeline", "validate")
	if fn == nil {
		return
	}
	kinds := map[string]int{}
	for _, pa := range c.enum(rule, fn, PathOpts{}) {
		rv := pa.RetVals()
		if rv == nil {
			continue
		}
		bad := []string{}
		for _, at := range pa.Atoms {
			if at.Neg {
				continue
			}
			switch {
			case at.Op == "eq" && at.L.String() == "Field[PipelineID](Param(0:p))" && at.R.Is("Const", `""`):
				bad = append(bad, "pipeline-id")
			case at.Op == "eq" && at.L.String() == "Field[EventType](Param(0:p))" && at.R.Is("Const", `""`):
				bad = append(bad, "event-type")
			case at.Op == "eq" && at.L.Op == "Call" && at.L.Name == "builtin len" && at.L.Args[0].String() == "Field[NodeIDs](Param(0:p))" && at.R.Is("Const", "0"):
				bad = append(bad, "no-ids")
			case at.Op == "eq" && at.L.Op == "Index" && at.L.Args[0].String() == "Field[NodeIDs](Param(0:p))" && at.R.Is("Const", `""`):
				bad = append(bad, "empty-id")
			}
		}
		r.TableRows++
		for _, b := range bad {
			kinds[b]++
		}
		isNil := isNilConst(rv[0])
		if len(bad) > 0 && isNil {
			r.Bad(rule, "Pipeline.validate", p.InstrPos(pa.End), "validate returns nil although the definition has: "+strings.Join(bad, ", "))
		} else if len(bad) == 0 && !isNil {
			r.Bad(rule, "Pipeline.validate", p.InstrPos(pa.End), "validate rejects a definition for which none of the four conditions holds: "+p.PathSummary(pa))
		} else {
			r.Ok(rule, "Pipeline.validate", p.Pos(fn.Pos()), "non-nil iff empty pipeline id, empty event type, no node ids or an empty node id")
		}
	}
	for _, k := range []string{"pipeline-id", "event-type", "no-ids", "empty-id"} {
		if kinds[k] == 0 {
			r.Bad(rule, "Pipeline.validate:"+k, p.Pos(fn.Pos()), "validate never tests condition "+k)
		}
	}
	// the scan for an empty id is a full range over NodeIDs (exits: exhausted, or break after recording the error)
	r.Floor(rule, 4)
}

// ruleShapeTable: C05.shape — P5 over the per-node step of doValidate.
func (c *Ctx) ruleShapeTable() {
	p, r := c.P, c.R
	const rule = "C05.shape"
	fn := c.Fn(rule, PkgRoot, "graph", "doValidate")
	if fn == nil {
		return
	}
	paths := c.enum(rule, fn, PathOpts{})
	isNodeType := func(t *Term) bool {
		return t.Op == "Call" && t.Name == "invoke eventlogger.Node.Type" && t.Args[0].String() == "Field[node](Param(2:node))"
	}
	isParentType := func(t *Term) bool {
		return t.Op == "Call" && t.Name == "invoke eventlogger.Node.Type" && t.Args[0].String() == "Field[node](Param(1:parent))"
	}
	isLen := func(t *Term) bool {
		return t.Op == "Call" && t.Name == "builtin len" && t.Args[0].String() == "Field[next](Param(2:node))"
	}
	type row struct {
		leaf, parentNil bool
		nt, pt          int
	}
	eval := func(at Atom, ro row) (bool, bool) {
		var v bool
		switch {
		case at.Op == "lt" && at.L.Is("Const", "0") && isLen(at.R):
			v = !ro.leaf
		case at.Op == "eq" && isLen(at.L) && at.R.Is("Const", "0"):
			v = ro.leaf
		case at.Op == "eq" && isNodeType(at.L) && at.R.Op == "Const":
			v = fmt.Sprint(ro.nt) == at.R.Name
		case at.Op == "eq" && isParentType(at.L) && at.R.Op == "Const":
			v = fmt.Sprint(ro.pt) == at.R.Name
		case at.Op == "eq" && at.L.IsParam("1:parent") && at.R.Is("Const", "nil"):
			v = ro.parentNil
		case at.Op == "lt" && isLen(at.R):
			// loop index test: a non-leaf has at least one child; first test true, later ones irrelevant to the verdict
			return true, true
		case at.Op == "eq" && at.L.Op == "Call" && at.L.Name == "(*eventlogger.graph).doValidate":
			return true, true // child verdict: both outcomes are explored separately
		default:
			return false, false
		}
		if at.Neg {
			v = !v
		}
		return v, true
	}
	nRows := 0
	for _, leaf := range []bool{true, false} {
		for _, pn := range []bool{true, false} {
			for _, nt := range []int{1, 2, 3, 4, 9} {
				for _, pt := range []int{1, 2, 3, 4, 9} {
					if pn && pt != 1 {
						continue // parent type irrelevant without a parent
					}
					ro := row{leaf, pn, nt, pt}
					nRows++
					r.TableRows++
					name := fmt.Sprintf("leaf=%v parentNil=%v type=%d parentType=%d", leaf, pn, nt, pt)
					var outs []string
					und := false
					for _, pa := range paths {
						rv := pa.RetVals()
						if rv == nil {
							continue
						}
						all := true
						for _, at := range pa.Atoms {
							v, known := eval(at, ro)
							if !known {
								// atoms on the parent's type when parent is nil cannot be evaluated: such paths would dereference nil
								if pn && (isParentType(at.L)) {
									all = false
									break
								}
								und = true
								r.Und(rule, "doValidate:atom", p.InstrPos(at.If), "branch condition not understood: "+at.String())
								all = false
								break
							}
							if !v {
								all = false
								break
							}
						}
						if !all {
							continue
						}
						tb := pa.TermsAt(pa.LastStep())
						t := tb.Of(rv[0])
						switch {
						case isNilConst(rv[0]):
							outs = append(outs, "nil")
						case t.Op == "Call" && t.Name == "(*eventlogger.graph).doValidate":
							outs = append(outs, "child")
						default:
							outs = append(outs, "error")
						}
					}
					if und {
						continue
					}
					wantErr := leaf && (nt != 3 || pn || (pt != 2 && pt != 4))
					got := strings.Join(uniq(outs), ",")
					var ok bool
					switch {
					case leaf && wantErr:
						ok = got == "error"
					case leaf && !wantErr:
						ok = got == "nil"
					default:
						ok = got == "child,nil" || got == "nil,child" // inner node: nil if all children pass, else the child's error
					}
					if ok {
						r.Ok(rule, "doValidate:table", p.Pos(fn.Pos()), "per-node step matches: error iff leaf and (not a sink, or no parent, or parent neither formatter nor formatter-filter); inner nodes return their children's verdict")
					} else {
						r.Bad(rule, "doValidate:row:"+name, p.Pos(fn.Pos()), fmt.Sprintf("row %s yields {%s}; expected %s", name, got, map[bool]string{true: "error", false: "nil / children's verdict"}[wantErr]))
					}
				}
			}
		}
	}
	// node type constants as assumed by the table
	for name, v := range map[string]int64{"NodeTypeFilter": 1, "NodeTypeFormatter": 2, "NodeTypeSink": 3, "NodeTypeFormatterFilter": 4} {
		if k := p.SSAPkgs[PkgRoot].Const(name); k == nil || k.Value.Int64() != v {
			r.Und(rule, "anchor:"+name, "", "node type constant differs from the table's encoding")
		}
	}
	// children: every child visited with the current node as parent
	rec := callsTo(fn, func(n string, cc *ssa.CallCommon) bool { return cc.StaticCallee() == fn })
	tb := p.NewTerms(nil)
	if len(rec) != 1 {
		r.Bad(rule, "doValidate:children", p.Pos(fn.Pos()), fmt.Sprintf("%d recursive calls (expected 1 in a loop)", len(rec)))
	} else {
		full, why := c.fullLoop(rec[0], true)
		a := rec[0].Common().Args
		ct := tb.Of(a[2])
		okc := full && tb.Of(a[1]).IsParam("2:node") && ct.Op == "Index" && ct.Args[0].String() == "Field[next](Param(2:node))"
		r.Check(okc, rule, "doValidate:children", p.InstrPos(rec[0]), "every child node.next[i] is validated with the current node as parent", "children are not all validated with the current node as parent: "+why)
		c.errorFlowRule(rule, fn, nil, false)
	}
	if nRows < 50 {
		r.Und(rule, "instance-floor", "", "table smaller than expected")
	}
}

func uniq(xs []string) []string {
	seen := map[string]bool{}
	var out []string
	for _, x := range xs {
		if !seen[x] {
			seen[x] = true
			out = append(out, x)
		}
	}
	return out
}

// ruleAnyRegistered: C05.any
func (c *Ctx) ruleAnyRegistered() {
	p, r := c.P, c.R
	const rule = "C05.any"
	fn := c.Fn(rule, PkgRoot, "Broker", "IsAnyPipelineRegistered")
	if fn == nil {
		return
	}
	tb := p.NewTerms(nil)
	var cell *ssa.Alloc
	okMissing, okFound := false, false
	for _, pa := range c.enum(rule, fn, PathOpts{}) {
		rv := pa.RetVals()
		if rv == nil {
			continue
		}
		pol, found := hasAtom(pa, func(at Atom) bool {
			return at.Op == "true" && at.L.String() == "Extract[1](Lookup(Field[graphs](Param(0:b)),Param(1:e)))"
		})
		if !found {
			r.Bad(rule, "IsAnyPipelineRegistered", p.InstrPos(pa.End), "a path does not look the type up in b.graphs")
			continue
		}
		if !pol {
			b, isC := constBool(rv[0])
			okMissing = isC && !b
			if !okMissing {
				r.Bad(rule, "IsAnyPipelineRegistered:missing", p.InstrPos(pa.End), "an unknown event type does not yield false")
			}
			continue
		}
		if ld, ok := rv[0].(*ssa.UnOp); ok && ld.Op == token.MUL {
			cell, _ = ld.X.(*ssa.Alloc)
		}
	}
	if cell != nil {
		// initialised false in fn; set true in the Range callback over the looked-up graph's roots
		initFalse := false
		for _, ref := range nonDebugRefs(cell) {
			if st, ok := ref.(*ssa.Store); ok {
				if b, isC := constBool(st.Val); isC && !b {
					initFalse = true
				} else {
					initFalse = false
				}
			}
		}
		rc := callsTo(fn, func(n string, cc *ssa.CallCommon) bool { return n == "(*eventlogger.graphMap).Range" })
		setTrue := false
		if len(rc) == 1 {
			recvT := tb.Of(rc[0].Common().Args[0])
			base, okb := recvT.IsFieldAddr("roots")
			if mc, ok := rc[0].Common().Args[1].(*ssa.MakeClosure); ok && okb && base.String() == "Extract[0](Lookup(Field[graphs](Param(0:b)),Param(1:e)))" {
				cb := mc.Fn.(*ssa.Function)
				// every path of the callback stores true into the cell
				all := true
				n := 0
				for _, pa := range c.enum(rule, cb, PathOpts{}) {
					n++
					st := false
					for _, s := range pa.Steps {
						if sto, ok := s.In.(*ssa.Store); ok {
							if bv, isC := constBool(sto.Val); isC && bv && p.NewTerms(nil).Of(sto.Addr).V == ssa.Value(cell) {
								st = true
							}
						}
					}
					if !st {
						all = false
					}
				}
				setTrue = all && n > 0
			}
		}
		okFound = initFalse && setTrue
	}
	r.Check(okMissing && okFound, rule, "IsAnyPipelineRegistered", p.Pos(fn.Pos()),
		"unknown type: false; otherwise the result is a flag initialised false and set true by every invocation of the Range callback over that type's pipelines",
		"IsAnyPipelineRegistered is not 'false for unknown types, else true iff the range callback ran'")
	_ = types.Typ
}
