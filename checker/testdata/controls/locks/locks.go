// Package locks holds positive ("Bad*") and negative ("Good*") controls for the
// lock-set rules. It is loaded next to the repository on every run: a rule that
// stays silent on a Bad construct is reported as disarmed, one that fires on a
// Good construct as unsound. Nothing here is ever executed.
package locks

import (
	"context"
	"sync"

	"github.com/hashicorp/eventlogger"
)

// ---- guard discipline ----

type BadBox struct {
	l sync.RWMutex
	n int
}

func (b *BadBox) Set(v int) { b.l.Lock(); b.n = v; b.l.Unlock() }
func (b *BadBox) Get() int  { return b.n } // unlocked read vs locked write

type BadDowngrade struct {
	l sync.RWMutex
	n int
}

func (b *BadDowngrade) Set(v int) { b.l.RLock(); b.n = v; b.l.RUnlock() } // write under read lock
func (b *BadDowngrade) Get() int  { b.l.RLock(); defer b.l.RUnlock(); return b.n }

type GoodBox struct {
	l sync.RWMutex
	n int
	m map[string]int
}

func NewGoodBox() *GoodBox { g := &GoodBox{}; g.n = 1; g.m = map[string]int{}; return g }
func (b *GoodBox) Set(v int) {
	b.l.Lock()
	defer b.l.Unlock()
	b.n = v
	b.m["x"] = v
	b.helper()
}
func (b *GoodBox) helper()  { b.n++ } // only called with the lock held
func (b *GoodBox) Get() int { b.l.RLock(); defer b.l.RUnlock(); return b.n + b.m["x"] }
func (b *GoodBox) Each(f func(int)) {
	b.l.RLock()
	defer b.l.RUnlock()
	func() { f(b.n) }()
}

// two locks: writers hold both, each reader holds one of them
type GoodTwoLocks struct {
	a, b sync.RWMutex
	n    int
}

func (g *GoodTwoLocks) Set(v int) { g.a.Lock(); g.b.Lock(); g.n = v; g.b.Unlock(); g.a.Unlock() }
func (g *GoodTwoLocks) GetA() int { g.a.RLock(); defer g.a.RUnlock(); return g.n }
func (g *GoodTwoLocks) GetB() int { g.b.RLock(); defer g.b.RUnlock(); return g.n }

// ---- pairing ----

type Pair struct {
	l sync.RWMutex
	n int
}

func (p *Pair) BadLeak(c bool) int {
	p.l.Lock()
	if c {
		return 0 // returns with the lock held
	}
	p.l.Unlock()
	return 1
}

func (p *Pair) BadMode() int {
	p.l.RLock()
	defer p.l.Unlock() // wrong mode
	return p.n
}

func (p *Pair) GoodDefer(c bool) int {
	p.l.Lock()
	defer p.l.Unlock()
	if c {
		return 0
	}
	return p.n
}

func (p *Pair) GoodExplicit(c bool) int {
	p.l.Lock()
	if c {
		p.l.Unlock()
		return 0
	}
	v := p.n
	p.l.Unlock()
	return v
}

// ---- re-entrancy / extension points ----

type BadBroker struct {
	lock  sync.RWMutex
	nodes map[string]eventlogger.Node
}

// BadReopen invokes an extension point under the registry lock.
func (b *BadBroker) BadReopen() error {
	b.lock.RLock()
	defer b.lock.RUnlock()
	for _, n := range b.nodes {
		if err := n.Reopen(); err != nil {
			return err
		}
	}
	return nil
}

// BadSelf re-acquires its own lock through a helper.
func (b *BadBroker) BadSelf() int {
	b.lock.Lock()
	defer b.lock.Unlock()
	return b.badCount()
}

func (b *BadBroker) badCount() int {
	b.lock.RLock()
	defer b.lock.RUnlock()
	return len(b.nodes)
}

type GoodBroker struct {
	lock  sync.RWMutex
	nodes map[string]eventlogger.Node
}

// GoodReopen snapshots under the lock and calls out after releasing it.
func (b *GoodBroker) GoodReopen(ctx context.Context) error {
	b.lock.RLock()
	ns := make([]eventlogger.Node, 0, len(b.nodes))
	for _, n := range b.nodes {
		ns = append(ns, n)
	}
	b.lock.RUnlock()
	for _, n := range ns {
		if err := n.Reopen(); err != nil {
			return err
		}
	}
	return nil
}

// ---- wait groups held in fields (ctl.wgfield) ----

// BadWG: Add and Wait of a wait group field share no lock.
type BadWG struct{ wg sync.WaitGroup }

func (b *BadWG) Use()   { b.wg.Add(1); defer b.wg.Done() }
func (b *BadWG) Drain() { b.wg.Wait() }

// GoodWG: Add and Wait are ordered by a mutex.
type GoodWG struct {
	l  sync.Mutex
	wg sync.WaitGroup
}

func (g *GoodWG) Use() {
	g.l.Lock()
	g.wg.Add(1)
	g.l.Unlock()
	defer g.wg.Done()
}

func (g *GoodWG) Drain() {
	g.l.Lock()
	g.wg.Wait()
	g.l.Unlock()
}

// ---- recovered panics and the error result (ctl.recover) ----

func work() error { return nil }

// RecoverBadLocal recovers into a local: the result is unnamed, the caller gets nil.
func RecoverBadLocal() error {
	var err error
	defer func() {
		if r := recover(); r != nil {
			err = context.Canceled
		}
	}()
	err = work()
	return err
}

// RecoverGoodNamed recovers into its named result.
func RecoverGoodNamed() (err error) {
	defer func() {
		if r := recover(); r != nil {
			err = context.Canceled
		}
	}()
	return work()
}
