// Package errs holds controls for the error-discipline and list-iteration rules.
package errs

import (
	"container/list"
	"context"
	"errors"
	"fmt"

	"github.com/hashicorp/eventlogger"
)

func step(i int) error {
	if i > 3 {
		return errors.New("x")
	}
	return nil
}

func pair(i int) (int, error) { return i, step(i) }

// ---- error flow ----

func BadDrop(i int) error {
	step(i) // discarded
	return nil
}

func BadSwallow(i int) error {
	if err := step(i); err != nil {
		i++ // falls through: swallowed
	}
	return nil
}

func BadReplace(i int) error {
	if err := step(i); err != nil {
		return nil
	}
	return nil
}

// BadLoopOverwrite: only the last iteration's error survives.
func BadLoopOverwrite(n int) error {
	var err error
	for i := 0; i < n; i++ {
		err = step(i)
	}
	if err != nil {
		return fmt.Errorf("loop: %w", err)
	}
	return nil
}

// GoodLoopJoin: every iteration's error is accumulated.
func GoodLoopJoin(n int) error {
	var err error
	for i := 0; i < n; i++ {
		err = errors.Join(err, step(i))
	}
	return err
}

// GoodLoopReturn: the error is examined inside the iteration.
func GoodLoopReturn(n int) error {
	var err error
	for i := 0; i < n; i++ {
		err = step(i)
		if err != nil {
			return err
		}
	}
	return err
}

// annotate always gives back an error when handed one; filterKnown does not.
func annotate(what string, err error) error {
	if errors.Is(err, context.Canceled) {
		return fmt.Errorf("%s (cancelled): %w", what, err)
	}
	return fmt.Errorf("%s: %w", what, err)
}

func filterKnown(err error) (out error) {
	switch err.(type) {
	case interface{ Timeout() bool }:
		out = fmt.Errorf("timeout: %w", err)
	}
	return out
}

// GoodWrapHelper: the failure is returned through a helper that keeps it.
func GoodWrapHelper(i int) error {
	if err := step(i); err != nil {
		return annotate("step", err)
	}
	return nil
}

// BadWrapHelperDrops: the helper returns nil for failures it does not recognise.
func BadWrapHelperDrops(i int) error {
	if err := step(i); err != nil {
		return filterKnown(err)
	}
	return nil
}

func GoodWrap(i int) error {
	if err := step(i); err != nil {
		return fmt.Errorf("wrap: %w", err)
	}
	_, err := pair(i)
	if err != nil {
		return err
	}
	return step(i + 1)
}

func GoodSwitch(i int) (n int, err error) {
	n, err = pair(i)
	switch {
	case err != nil:
		return 0, fmt.Errorf("op: %w", err)
	}
	return n, nil
}

// ---- E.nil ----

type BadNode struct{}

func (BadNode) Process(ctx context.Context, e *eventlogger.Event) (*eventlogger.Event, error) {
	err := step(len(e.Type))
	return e, err // event travels with a possible error
}

type GoodNode struct{}

func (GoodNode) Process(ctx context.Context, e *eventlogger.Event) (*eventlogger.Event, error) {
	if err := step(len(e.Type)); err != nil {
		return nil, err
	}
	return e, nil
}

// ---- list iteration ----

type q struct {
	l *list.List
	m map[string]*list.Element
}

func (x *q) open(e *list.Element) error {
	defer x.l.Remove(e)
	return step(x.l.Len())
}

func (x *q) BadFlush() error {
	for e := x.l.Front(); e != nil; e = e.Next() {
		if err := x.open(e); err != nil {
			return err
		}
	}
	return nil
}

func (x *q) GoodFlush() error {
	var next *list.Element
	for e := x.l.Front(); e != nil; e = next {
		next = e.Next()
		if err := x.open(e); err != nil {
			return err
		}
	}
	return nil
}

func (x *q) GoodScan() int {
	n := 0
	for e := x.l.Front(); e != nil; e = e.Next() {
		n += len(e.Value.(string))
	}
	return n
}
